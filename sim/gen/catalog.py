"""Op catalogues, shard generation, tier tables and evidence texts for the fsim simulators.

Everything that is a template argument in Fastor (shape, element type, fixed ranges,
operator, expression form) is fixed when a simulator is compiled; this module expands the
declarative tables into sharded .cpp files. It is deterministic: same inputs, same files.
"""
import os

NSHARDS = 32


# =============================================================================== tiers
def tiers(prop, tier):
    q = tier == 'quick'
    if prop == 'C07':
        if q:
            return [('sse2-base', 1, 'all'), ('avx512', 1, 'all'), ('avx2-checks', 1, 'all'),
                    ('sse2-base', 0, 20000), ('avx512', 0, 20000), ('avx2-checks', 0, 20000)]
        cfgs = ['sse2-base', 'sse42', 'avx', 'avx2', 'avx512', 'avx512-cxx17', 'avx2-checks', 'sse2-checks', 'avx2-dontalign',
                'scalar', 'O0-debug', 'O3-avx2', 'clang-sse2', 'clang-avx2', 'clang-avx512']
        return [(c, 1, 'all') for c in cfgs] + [(c, 0, 300000) for c in cfgs] + [('asan-sse2', 1, 'all'), ('asan-avx2', 1, 'all')]
    if prop == 'C05':
        if q:
            return [('sse2-base', 0, 30000), ('avx512', 0, 30000), ('sse2-vecassign', 0, 30000)]
        cfgs = ['sse2-base', 'sse42', 'avx', 'avx2', 'avx512', 'avx512-cxx17', 'sse2-vecassign', 'avx2-vecassign', 'avx512-vecassign',
                'avx2-dontalign', 'scalar', 'O0-debug', 'O3-avx2', 'clang-sse2', 'clang-avx2', 'clang-avx512']
        return [(c, 0, 400000) for c in cfgs] + [('asan-sse2', 0, 20000), ('asan-avx2', 0, 20000)]
    if prop == 'C18':
        if q:
            return [('sse2-base', 0, 30000), ('avx512', 0, 30000), ('avx2', 0, 30000)]
        cfgs = ['sse2-base', 'sse42', 'avx', 'avx2', 'avx512', 'avx512-cxx17', 'sse2-vecassign', 'avx512-vecassign',
                'avx2-dontalign', 'scalar', 'O0-debug', 'O3-avx2', 'clang-sse2', 'clang-avx2', 'clang-avx512']
        return [(c, 0, 400000) for c in cfgs] + [('asan-sse2', 0, 20000), ('asan-avx2', 0, 20000)]
    if prop == 'C20':
        if q:
            return [('sse2-base', 0, 30000), ('avx512', 0, 30000), ('avx2', 0, 30000)]
        cfgs = ['sse2-base', 'sse42', 'avx', 'avx2', 'avx512', 'avx512-cxx17', 'avx2-dontalign', 'scalar', 'O0-debug', 'O3-avx2',
                'clang-sse2', 'clang-avx2', 'clang-avx512']
        return [(c, 0, 400000) for c in cfgs] + [('asan-sse2', 0, 20000), ('asan-avx2', 0, 20000)]
    raise KeyError(prop)


# =============================================================================== evidence texts
def rule_text(prop):
    return {
        'C07': "A case is one simulated run: a plan of 1-4 library operations (sweep mode: exactly one), each with a placement (middle / back-flush / "
               "front-flush against a PROT_NONE page) and misalignment 0..63 per operand, a poison pattern pair, an armed/unarmed allocation failure and a data seed; "
               "every operation is executed twice under different surrounding poison. Sweep mode enumerates op x {back,front,middle} x 16 misalignments; random mode draws "
               "from VERIF_SEED. A step signature is (catalogue op, placement class and misalignment of each operand, fault set); it is NON-TRIVIAL when at least one operand "
               "is guard-adjacent or misaligned or a fault (allocation failure, bad index) is armed. distinct_nontrivial counts distinct non-trivial signatures per build configuration.",
        'C05': "A case is one simulated run: 1-12 slice writes A(slice) op= rhs (dynamic, compile-time and scalar-element forms, five operators, scalar/tensor/slice/expression/"
               "evaluation-requiring right-hand sides) on cells placed in a guarded, poisoned arena, checked after every step against a std::vector shadow (bit-exact) plus all "
               "other cells and all poison. A step signature is (catalogue op, operator, rhs kind, extent class mod lane count, stride class, placement); it is NON-TRIVIAL when the "
               "selection is a proper non-empty subset of A and the written values differ from the old ones. distinct_nontrivial counts distinct non-trivial signatures per build configuration.",
        'C18': "A case is one simulated run: 1-10 overlapping assignments dst.noalias() op= f(src...) / dst op= g(coincident src) between views of ONE parent tensor (dynamic, "
               "compile-time, index-tensor, mask, diagonal views; long-lived view handles armed in one step and used in a later one), checked after every step against snapshot "
               "semantics on a std::vector shadow. A step signature is (catalogue op, operator, rhs form, shift/overlap class, handle state); it is NON-TRIVIAL when the overlap was a real "
               "hazard, i.e. a naive in-order element loop would have produced a different result than the snapshot. distinct_nontrivial counts distinct non-trivial signatures per build configuration.",
        'C20': "A case is one simulated run: 1-12 operations applied alternately through TensorMap handles of different same-size shapes over one buffer (raw buffer at a chosen "
               "misalignment and guard side, or an owning tensor with reshape/flatten/squeeze maps) and identically on an ordinary owning twin tensor; after every step buffer bytes == twin bytes, "
               "every other handle observes the new bytes, poison intact. A step signature is (catalogue op, handle index, operator, rhs kind, misalignment, guard side); it is NON-TRIVIAL when a write "
               "through one handle is observed through a different one, or the buffer is misaligned or guard-adjacent. distinct_nontrivial counts distinct non-trivial signatures per build configuration.",
    }[prop]


def assumptions(prop):
    common = ["the op catalogue is finite: shapes, element types and compile-time ranges are those listed by sim/gen/catalog.py",
              "the host CPU executes every ISA natively (SSE2..AVX-512); results hold for the compilers and flags listed under coverage.builds",
              "seeded search samples histories and placements; a clean batch is evidence, not proof"]
    extra = {
        'C07': ["temporaries the library creates on the real stack cannot be placed by the simulator; their over-reads are only visible to the ASan configurations (thorough tier)",
                "back-end kernels taking raw pointers are judged only under the storage contract their in-library callers give them (aligned start, extent rounded up to the alignment)"],
        'C05': ["data are small integers so that + - * and power-of-two / are exact in every element type; bit comparison is therefore sound",
                "values of evaluation-requiring right-hand sides are taken from Fastor's own evaluation on copies of the operands (their correctness is C01/C14's business)"],
        'C18': ["partial overlap without an armed noalias() is undefined by the property and never generated; the executor coerces such a step to a coincident source",
                "diag(A).noalias() does not compile on the pinned tree, so diagonal views take part only in the coincident clause"],
        'C20': ["the twin (an ordinary aligned owning tensor executing the identical operation) is the specification, so value defects common to both paths cannot raise an alarm here",
                "the layout-conversion and constructor clause is a pure function: it is sampled for the catalogue shapes, not decided"],
    }[prop]
    return common + extra


def sanity(prop, counters, runs):
    """conditions under which the machinery itself must be distrusted"""
    msgs = []
    if runs == 0:
        msgs.append('no run was executed')
    if prop == 'C07':
        if counters.get('probe/exempt-op-did-allocate', 0) == 0:
            msgs.append('allocator audit is blind: exempt operations (tovector, operator<<) were never seen allocating')
        if counters.get('probe/exempt-op-did-NOT-allocate', 0) > 0:
            msgs.append('allocator audit is blind: an exempt operation completed without a counted allocation')
    return msgs


# =============================================================================== memsim catalogue
FLOATS = ['float', 'double']
INTS = ['int', 'Int64']
ALLT = FLOATS + INTS


def memsim_ops(config, flags):
    """list of (function expr, name, family, flags expr, header)"""
    ops = []
    return ops


def write_shards(bdir, ns, headers, prelude, ops, regmacro, simd_all=None):
    """ops: list of C++ registration statements; distributes round-robin into NSHARDS files"""
    files = []
    n = min(NSHARDS, max(1, len(ops)))
    buckets = [[] for _ in range(n)]
    for i, o in enumerate(ops):
        buckets[i % n].append(o)
    inc = ''.join(f'#include "{h}"\n' for h in headers)
    decl = []
    for i, b in enumerate(buckets):
        fn = f'fsim_shard_{i}'
        p = os.path.join(bdir, f'shard_{i:02d}.cpp')
        with open(p, 'w') as f:
            f.write(inc + prelude)
            f.write(f'namespace {ns} {{ void {fn}(std::vector<OpDesc> &v) {{\n')
            for o in b:
                f.write('    ' + o + '\n')
            f.write('} }\n')
        files.append(p); decl.append(fn)
    return files, decl


def gen_memsim(bdir, config, flags):
    stmts = ['reg_simd_all(v);']
    stmts += memsim_ops(config, flags)
    files, decl = write_shards(bdir, 'memsim', ['memsim.h', 'ops_simd.h'], 'using namespace Fastor;\n', stmts, None)
    with open(os.path.join(bdir, 'shards.inc'), 'w') as f:
        f.write('namespace memsim {\n')
        for d in decl:
            f.write(f'void {d}(std::vector<OpDesc> &);\n')
        f.write('static const RegFn SHARD_FNS[] = {' + ', '.join(decl) + '};\n}\n')
    return files


def generate(sim, bdir, config, flags):
    if sim == 'memsim':
        return gen_memsim(bdir, config, flags)
    raise KeyError(sim)
