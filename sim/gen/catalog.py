"""Op catalogues, shard generation, tier tables and evidence texts for the fsim simulators.

Everything that is a template argument in Fastor (shape, element type, fixed ranges,
operator, expression form) is fixed when a simulator is compiled; this module expands the
declarative tables into sharded .cpp files. It is deterministic: same inputs, same files.
"""
import os

NSHARDS = 48


# =============================================================================== tiers
def tiers(prop, tier):
    q = tier == 'quick'
    if prop == 'C07':
        if q:
            return [('sse2-base', 1, 'all'), ('avx512', 1, 'all'), ('avx2-checks', 1, 'all'),
                    ('sse2-base', 0, 20000), ('avx512', 0, 20000), ('avx2-checks', 0, 20000)]
        cfgs = ['sse2-base', 'sse42', 'avx', 'avx2', 'avx512', 'avx512-cxx17', 'avx2-checks', 'sse2-checks', 'avx2-dontalign',
                'scalar', 'O0-debug', 'O3-avx2', 'clang-sse2', 'clang-avx2', 'clang-avx512']
        return [(c, 1, 'all') for c in cfgs] + [(c, 0, 300000) for c in cfgs] + [('asan-sse2', 1, 'all'), ('asan-avx2', 1, 'all')]
    if prop == 'C05':
        if q:
            return [('sse2-base', 0, 30000), ('avx512', 0, 30000), ('sse2-vecassign', 0, 30000)]
        cfgs = ['sse2-base', 'sse42', 'avx', 'avx2', 'avx512', 'avx512-cxx17', 'sse2-vecassign', 'avx2-vecassign', 'avx512-vecassign',
                'avx2-dontalign', 'scalar', 'O0-debug', 'O3-avx2', 'clang-sse2', 'clang-avx2', 'clang-avx512']
        return [(c, 0, 400000) for c in cfgs] + [('asan-sse2', 0, 20000), ('asan-avx2', 0, 20000)]
    if prop == 'C18':
        if q:
            return [('sse2-base', 0, 30000), ('avx512', 0, 30000), ('avx2', 0, 30000)]
        cfgs = ['sse2-base', 'sse42', 'avx', 'avx2', 'avx512', 'avx512-cxx17', 'sse2-vecassign', 'avx512-vecassign',
                'avx2-dontalign', 'scalar', 'O0-debug', 'O3-avx2', 'clang-sse2', 'clang-avx2', 'clang-avx512']
        return [(c, 0, 400000) for c in cfgs] + [('asan-sse2', 0, 20000), ('asan-avx2', 0, 20000)]
    if prop == 'C20':
        if q:
            return [('sse2-base', 0, 30000), ('avx512', 0, 30000), ('avx2', 0, 30000)]
        cfgs = ['sse2-base', 'sse42', 'avx', 'avx2', 'avx512', 'avx512-cxx17', 'avx2-dontalign', 'scalar', 'O0-debug', 'O3-avx2',
                'clang-sse2', 'clang-avx2', 'clang-avx512']
        return [(c, 0, 400000) for c in cfgs] + [('asan-sse2', 0, 20000), ('asan-avx2', 0, 20000)]
    raise KeyError(prop)


# =============================================================================== evidence texts
def rule_text(prop):
    return {
        'C07': "A case is one simulated run: a plan of 1-4 library operations (sweep mode: exactly one), each with a placement (middle / back-flush / "
               "front-flush against a PROT_NONE page) and misalignment 0..63 per operand, a poison pattern pair, an armed/unarmed allocation failure and a data seed; "
               "every operation is executed twice under different surrounding poison. Sweep mode enumerates op x {back,front,middle} x 16 misalignments; random mode draws "
               "from VERIF_SEED. A step signature is (catalogue op, placement class and misalignment of each operand, fault set); it is NON-TRIVIAL when at least one operand "
               "is guard-adjacent or misaligned or a fault (allocation failure, bad index) is armed. distinct_nontrivial counts distinct non-trivial signatures per build configuration.",
        'C05': "A case is one simulated run: 1-12 slice writes A(slice) op= rhs (dynamic, compile-time and scalar-element forms, five operators, scalar/tensor/slice/expression/"
               "evaluation-requiring right-hand sides) on cells placed in a guarded, poisoned arena, checked after every step against a std::vector shadow (bit-exact) plus all "
               "other cells and all poison. A step signature is (catalogue op, operator, rhs kind, extent class mod lane count, stride class, placement); it is NON-TRIVIAL when the "
               "selection is a proper non-empty subset of A and the written values differ from the old ones. distinct_nontrivial counts distinct non-trivial signatures per build configuration.",
        'C18': "A case is one simulated run: 1-10 overlapping assignments dst.noalias() op= f(src...) / dst op= g(coincident src) between views of ONE parent tensor (dynamic, "
               "compile-time, index-tensor, mask, diagonal views; long-lived view handles armed in one step and used in a later one), checked after every step against snapshot "
               "semantics on a std::vector shadow. A step signature is (catalogue op, operator, rhs form, shift/overlap class, handle state); it is NON-TRIVIAL when the overlap was a real "
               "hazard, i.e. a naive in-order element loop would have produced a different result than the snapshot. distinct_nontrivial counts distinct non-trivial signatures per build configuration.",
        'C20': "A case is one simulated run: 1-12 operations applied alternately through TensorMap handles of different same-size shapes over one buffer (raw buffer at a chosen "
               "misalignment and guard side, or an owning tensor with reshape/flatten/squeeze maps) and identically on an ordinary owning twin tensor; after every step buffer bytes == twin bytes, "
               "every other handle observes the new bytes, poison intact. A step signature is (catalogue op, handle index, operator, rhs kind, misalignment, guard side); it is NON-TRIVIAL when a write "
               "through one handle is observed through a different one, or the buffer is misaligned or guard-adjacent. distinct_nontrivial counts distinct non-trivial signatures per build configuration.",
    }[prop]


def assumptions(prop):
    common = ["the op catalogue is finite: shapes, element types and compile-time ranges are those listed by sim/gen/catalog.py",
              "the host CPU executes every ISA natively (SSE2..AVX-512); results hold for the compilers and flags listed under coverage.builds",
              "seeded search samples histories and placements; a clean batch is evidence, not proof"]
    extra = {
        'C07': ["temporaries the library creates on the real stack cannot be placed by the simulator; their over-reads are only visible to the ASan configurations (thorough tier)",
                "back-end kernels taking raw pointers are judged only under the storage contract their in-library callers give them (aligned start, extent rounded up to the alignment)"],
        'C05': ["data are small integers so that + - * and power-of-two / are exact in every element type; bit comparison is therefore sound",
                "values of evaluation-requiring right-hand sides are taken from Fastor's own evaluation on copies of the operands (their correctness is C01/C14's business)"],
        'C18': ["partial overlap without an armed noalias() is undefined by the property and never generated; the executor coerces such a step to a coincident source",
                "diag(A).noalias() does not compile on the pinned tree, so diagonal views take part only in the coincident clause"],
        'C20': ["the twin (an ordinary aligned owning tensor executing the identical operation) is the specification, so value defects common to both paths cannot raise an alarm here",
                "the layout-conversion and constructor clause is a pure function: it is sampled for the catalogue shapes, not decided"],
    }[prop]
    return common + extra


def sanity(prop, counters, runs):
    """conditions under which the machinery itself must be distrusted"""
    msgs = []
    if runs == 0:
        msgs.append('no run was executed')
    if prop == 'C07':
        if counters.get('probe/exempt-op-did-allocate', 0) == 0:
            msgs.append('allocator audit is blind: exempt operations (tovector, operator<<) were never seen allocating')
        if counters.get('probe/exempt-op-did-NOT-allocate', 0) > 0:
            msgs.append('allocator audit is blind: an exempt operation completed without a counted allocation')
    return msgs


# =============================================================================== memsim catalogue
FLOATS = ['float', 'double']
INTS = ['int', 'Int64']
ALLT = FLOATS + INTS


def _lcg(seed):
    x = seed & 0xFFFFFFFF
    while True:
        x = (x * 1664525 + 1013904223) & 0xFFFFFFFF
        yield x >> 8


SHAPES2 = [(1, 1), (2, 2), (3, 3), (4, 4), (2, 3), (3, 2), (3, 4), (4, 5), (5, 7), (7, 5), (3, 8), (2, 9), (8, 3), (3, 15), (2, 16), (3, 17), (9, 9), (1, 7), (5, 1), (8, 8)]
SHAPES3 = [(2, 2, 2), (2, 3, 4), (3, 2, 5), (2, 2, 7), (3, 3, 8), (2, 3, 9), (1, 2, 16), (2, 2, 17), (4, 4, 4), (2, 5, 3)]
SQUARES = [1, 2, 3, 4, 5, 6, 7, 8, 9, 12, 16, 17]


def sizes1(t):
    return list(range(1, 36)) if t in ('float', 'int') else list(range(1, 20))


def matmul_triples(t):
    base = [(2, 2, 2), (3, 3, 3), (4, 4, 4), (8, 8, 8), (3, 3, 1), (1, 3, 3), (3, 1, 3), (1, 1, 1), (2, 3, 4), (5, 5, 5), (3, 9, 1), (9, 3, 3)]
    Ms = [1, 2, 3, 4, 5, 8]; Ks = [1, 2, 3, 4, 7]; Ns = [1, 2, 3, 4, 5, 6, 7, 8, 9, 10, 12, 15, 16, 17]
    g = _lcg({'float': 11, 'double': 22, 'int': 33}[t])
    out = list(base)
    while len(out) < 84:
        m, k, n = Ms[next(g) % len(Ms)], Ks[next(g) % len(Ks)], Ns[next(g) % len(Ns)]
        if (m, k, n) not in out:
            out.append((m, k, n))
    return out


def memsim_ops(config, flags):
    """list of C++ registration statements"""
    checks = 'FASTOR_ENABLE_RUNTIME_CHECKS=1' in flags or 'NDEBUG' not in flags
    avx2_plus = any(f in flags for f in ('-mavx2', 'avx512', '-mavx ', '-mavx'))
    ops = []

    def reg(fn, fam, fl='0'):
        ops.append(f'MEMSIM_REG(v, ({fn}), "{fn}", "{fam}", {fl});')
    for t in ALLT:
        fp = t in FLOATS
        for n in sizes1(t):
            reg(f'op_map_expr<{t},{n}>', 'map_ew', 'F_ANYALIGN')
            reg(f'op_map_compound<{t},{n}>', 'map_ew', 'F_ANYALIGN')
            reg(f'op_map_scalar<{t},{n}>', 'map_ew', 'F_ANYALIGN')
            reg(f'op_map_methods<{t},{n}>', 'map_methods', 'F_ANYALIGN')
            reg(f'op_map_reduce<{t},{n}>' if fp else f'op_map_reduce_np<{t},{n}>', 'map_reduce', 'F_ANYALIGN')
            reg(f'op_own_methods<{t},{n}>', 'own_methods')
            reg(f'op_view1_dyn<{t},{n}>', 'view_dyn')
            if n % 2 == 1 or n in (2, 4, 8, 16, 32):
                reg(f'op_map_compound_expr<{t},{n}>', 'map_ew', 'F_ANYALIGN')
                reg(f'op_map_to_tensor<{t},{n}>', 'map_ew', 'F_ANYALIGN')
                reg(f'op_map_cmp<{t},{n}>', 'map_reduce', 'F_ANYALIGN')
                reg(f'op_own_expr<{t},{n}>', 'own_ew')
                reg(f'op_own_reduce<{t},{n}>', 'own_reduce')
                if n >= 2:
                    reg(f'op_view1_fixed<{t},{n}>', 'view_fixed')
                reg(f'op_view_mask<{t},{n}>', 'view_mask')
                if n >= 3:
                    reg(f'op_view_index<{t},{n},{max(1, n // 2)}>', 'view_index')
                if fp:
                    reg(f'op_map_math<{t},{n}>', 'map_ew', 'F_ANYALIGN')
                    reg(f'op_own_math<{t},{n}>', 'own_ew')
                    reg(f'op_map_inner_norm<{t},{n}>', 'map_reduce', 'F_ANYALIGN')
        for (m, n) in SHAPES2:
            reg(f'op_map_expr<{t},{m},{n}>', 'map_ew', 'F_ANYALIGN')
            reg(f'op_map_transpose<{t},{m},{n}>', 'map_transpose', 'F_ANYALIGN')
            reg(f'op_map2_fixed_views<{t},{m},{n}>', 'map_view_fixed', 'F_ANYALIGN')
            reg(f'op_map2_dyn_views<{t},{m},{n}>', 'map_view_dyn', 'F_ANYALIGN')
            reg(f'op_map_colmajor<{t},{m},{n}>', 'map_layout', 'F_ANYALIGN')
            reg(f'op_map_ctor_ptr<{t},{m},{n}>', 'ctor', 'F_ANYALIGN')
            reg(f'op_transpose<{t},{m},{n}>', 'transpose')
            reg(f'op_view2_dyn<{t},{m},{n}>', 'view_dyn')
            reg(f'op_view2_fixed<{t},{m},{n}>', 'view_fixed')
            reg(f'op_scalar_index<{t},{m},{n}>', 'scalar_index')
            reg(f'op_ctor_ptr<{t},{m},{n}>', 'ctor', 'F_ANYALIGN')
            reg(f'op_ctor_array<{t},{m},{n}>', 'ctor', 'F_ANYALIGN')
            reg(f'op_colmajor<{t},{m},{n}>', 'layout')
            reg(f'op_reshape<{t},{m},{n}>', 'reshape')
            reg(f'op_own_expr<{t},{m},{n}>', 'own_ew')
            reg(f'op_view_mask<{t},{m},{n}>', 'view_mask')
            reg(f'op_raw_transpose<{t},{m},{n}>', 'raw_transpose')
            if checks:
                reg(f'op_badindex2<{t},{m},{n}>', 'badindex', 'F_BADINDEX')
                reg(f'op_badindex_map<{t},{m},{n}>', 'badindex', 'F_BADINDEX | F_ANYALIGN')
        for (m, n, p) in SHAPES3:
            reg(f'op_map3_views<{t},{m},{n},{p}>', 'map_view_nd', 'F_ANYALIGN')
            reg(f'op_map_expr<{t},{m},{n},{p}>', 'map_ew', 'F_ANYALIGN')
            reg(f'op_view3_dyn<{t},{m},{n},{p}>', 'view_dyn')
            reg(f'op_view3_fixed<{t},{m},{n},{p}>', 'view_fixed')
            reg(f'op_colmajor<{t},{m},{n},{p}>', 'layout')
            reg(f'op_permute3<{t},{m},{n},{p}>', 'permute')
            reg(f'op_own_reduce<{t},{m},{n},{p}>', 'own_reduce')
            if t != 'Int64':
                reg(f'op_einsum_3<{t},{m},{n},{p}>', 'einsum')
            if checks:
                reg(f'op_badindex3<{t},{m},{n},{p}>', 'badindex', 'F_BADINDEX')
        for n in SQUARES:
            reg(f'op_view_diag<{t},{n}>', 'view_diag')
            if checks:
                reg(f'op_badindex1<{t},{n}>', 'badindex', 'F_BADINDEX')
        reg(f'op_cast<{t},{"double" if t != "double" else "float"},3,5>', 'cast')
        reg(f'op_cast<{t},{"int" if t != "int" else "float"},2,9>', 'cast')
        for sh in ('7', '3,3', '2,3,5', '17'):
            reg(f'op_tovector<{t},{sh}>', 'exempt', 'F_EXEMPT')
            reg(f'op_print<{t},{sh}>', 'exempt', 'F_EXEMPT')
    for t in ('float', 'double', 'int'):
        for i, (m, k, n) in enumerate(matmul_triples(t)):
            reg(f'op_matmul<{t},{m},{k},{n}>', 'matmul')
            reg(f'op_raw_matmul<{t},{m},{k},{n}>', 'raw_matmul')
            reg(f'op_raw_matmul_probe<{t},{m},{k},{n}>', 'raw_matmul_probe', 'F_UNJUDGED | F_ANYALIGN')
            if i % 2 == 0:
                reg(f'op_map_matmul<{t},{m},{k},{n}>', 'map_matmul', 'F_ANYALIGN')
            if i % 3 == 0:
                reg(f'op_lazy_matmul<{t},{m},{k},{n}>', 'lazy_matmul')
                reg(f'op_map_lazy_matmul<{t},{m},{k},{n}>', 'map_matmul', 'F_ANYALIGN')
            if i % 3 == 1 and t != 'int':
                reg(f'op_tmatmul<{t},{m},{k},{n}>', 'tmatmul')
            if i % 4 == 2:
                reg(f'op_einsum_mm<{t},{m},{k},{n}>', 'einsum')
            if n == 1 or i % 5 == 0:
                reg(f'op_matvec<{t},{m},{k}>', 'matvec')
        for (m, n) in SHAPES2[1:13]:   # outer of two 1-vectors is ambiguous
            reg(f'op_outer_inner<{t},{m},{n}>', 'outer_inner')
            reg(f'op_einsum_outer<{t},{m},{n}>', 'einsum')
    for t in FLOATS:
        for n in range(1, 10):
            if n >= 2:      # determinant of a 1x1 does not compile (_det<T,1,1> missing)
                reg(f'op_inverse<{t},{n}>', 'inverse')
            reg(f'op_trace_norm<{t},{n}>', 'trace_norm')
            if 2 <= n <= 4:   # the raw kernels exist for N = 2..4 only
                reg(f'op_raw_inverse_det<{t},{n}>', 'raw_inverse')
            if n >= 2:
                reg(f'op_inverse_strategies<{t},{n}>', 'inverse')
                reg(f'op_lu<{t},{n}>', 'lu')
                reg(f'op_qr<{t},{n}>', 'qr')
                reg(f'op_solve<{t},{n},{1 + n % 3}>', 'solve')
        for n in (12, 16, 17, 20):
            reg(f'op_inverse_strategies<{t},{n}>', 'inverse')
            reg(f'op_lu<{t},{n}>', 'lu')
            reg(f'op_solve<{t},{n},2>', 'solve')
    return ops


def write_shards(bdir, ns, headers, prelude, ops, regmacro, simd_all=None):
    """ops: list of C++ registration statements; distributes round-robin into NSHARDS files"""
    files = []
    n = min(NSHARDS, max(1, len(ops)))
    buckets = [[] for _ in range(n)]
    for i, o in enumerate(ops):
        buckets[i % n].append(o)
    inc = ''.join(f'#include "{h}"\n' for h in headers)
    decl = []
    for i, b in enumerate(buckets):
        fn = f'fsim_shard_{i}'
        p = os.path.join(bdir, f'shard_{i:02d}.cpp')
        with open(p, 'w') as f:
            f.write(inc + prelude)
            f.write(f'namespace {ns} {{ void {fn}(std::vector<OpDesc> &v) {{\n')
            for o in b:
                f.write('    ' + o + '\n')
            f.write('} }\n')
        files.append(p); decl.append(fn)
    return files, decl


def gen_memsim(bdir, config, flags):
    stmts = ['reg_simd_all(v);']
    stmts += memsim_ops(config, flags)
    files, decl = write_shards(bdir, 'memsim', ['memsim.h', 'ops_simd.h', 'ops_map.h', 'ops_own.h', 'ops_misc.h'], 'using namespace Fastor;\n', stmts, None)
    with open(os.path.join(bdir, 'shards.inc'), 'w') as f:
        f.write('namespace memsim {\n')
        for d in decl:
            f.write(f'void {d}(std::vector<OpDesc> &);\n')
        f.write('static const RegFn SHARD_FNS[] = {' + ', '.join(decl) + '};\n}\n')
    return files


def generate(sim, bdir, config, flags):
    if sim == 'memsim':
        return gen_memsim(bdir, config, flags)
    raise KeyError(sim)
