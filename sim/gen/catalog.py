"""Op catalogues, shard generation, tier tables and evidence texts for the fsim simulators.

Everything that is a template argument in Fastor (shape, element type, fixed ranges,
operator, expression form) is fixed when a simulator is compiled; this module expands the
declarative tables into sharded .cpp files. It is deterministic: same inputs, same files.
"""
import os

NSHARDS = 48


# =============================================================================== tiers
def tiers(prop, tier):
    q = tier == 'quick'
    if prop == 'C07':
        if q:
            return [('sse2-base@lite', 1, 'all'), ('avx512@lite', 1, 'all'), ('avx2-checks@lite', 1, 'all'),
                    ('sse2-base@lite', 0, 20000), ('avx512@lite', 0, 20000), ('avx2-checks@lite', 0, 20000)]
        cfgs = ['sse2-base', 'sse42', 'avx', 'avx2', 'avx512', 'avx512-cxx17', 'avx2-checks', 'sse2-checks', 'avx2-dontalign',
                'scalar', 'O0-debug', 'O3-avx2', 'clang-sse2', 'clang-avx2', 'clang-avx512']
        return [(c, 1, 'all') for c in cfgs] + [(c, 0, 300000) for c in cfgs] + [('asan-sse2@lite', 1, 'all'), ('asan-avx2@lite', 1, 'all'), ('asan-avx512@lite', 1, 'all')]
    if prop == 'C05':
        if q:
            return [('sse2-base@lite', 0, 30000), ('avx512@lite', 0, 30000), ('sse2-vecassign@lite', 0, 30000), ('avx2-vecassign-checks@lite', 0, 30000),
                    ('avx2-mapparent@lite', 0, 30000)]
        cfgs = ['sse2-base', 'sse42', 'avx', 'avx2', 'avx512', 'avx512-cxx17', 'sse2-vecassign', 'avx2-vecassign', 'avx512-vecassign', 'avx2-vecassign-checks',
                'avx2-checks', 'avx2-dontalign', 'scalar', 'O0-debug', 'O3-avx2', 'clang-sse2', 'clang-avx2', 'clang-avx512']
        cfgs += ['sse2-mapparent', 'avx2-mapparent', 'avx512-mapparent-vecassign', 'clang-avx512-mapparent']
        return [(c, 0, 400000) for c in cfgs] + [('asan-sse2@lite', 0, 50000), ('asan-avx2@lite', 0, 50000)]
    if prop == 'C18':
        if q:
            return [('sse2-base@lite', 0, 30000), ('avx512@lite', 0, 30000), ('avx2-checks@lite', 0, 30000), ('avx2-mapparent@lite', 0, 15000)]
        cfgs = ['sse2-base', 'sse42', 'avx', 'avx2', 'avx512', 'avx512-cxx17', 'sse2-vecassign', 'avx512-vecassign', 'avx2-checks',
                'sse2-mapparent', 'avx2-mapparent', 'avx512-mapparent-vecassign', 'clang-avx512-mapparent',
                'avx2-dontalign', 'scalar', 'O0-debug', 'O3-avx2', 'clang-sse2', 'clang-avx2', 'clang-avx512']
        return [(c, 0, 400000) for c in cfgs] + [('asan-sse2@lite', 0, 50000), ('asan-avx2@lite', 0, 50000)]
    if prop == 'C20':
        if q:
            return [('sse2-base@lite', 0, 30000), ('avx512@lite', 0, 30000), ('avx2-checks@lite', 0, 30000)]
        cfgs = ['sse2-base', 'sse42', 'avx', 'avx2', 'avx512', 'avx512-cxx17', 'avx2-checks', 'avx2-dontalign', 'scalar', 'O0-debug', 'O3-avx2',
                'clang-sse2', 'clang-avx2', 'clang-avx512']
        return [(c, 0, 400000) for c in cfgs] + [('asan-sse2@lite', 0, 50000), ('asan-avx2@lite', 0, 50000)]
    raise KeyError(prop)


# =============================================================================== evidence texts
def rule_text(prop):
    return {
        'C07': "A case is one simulated run: a plan of 1-4 library operations (sweep mode: exactly one), each with a placement (middle / back-flush / "
               "front-flush against a PROT_NONE page) and misalignment 0..63 per operand, a poison pattern pair, an armed/unarmed allocation failure and a data seed; "
               "every operation is executed twice under different surrounding poison. Sweep mode enumerates op x {back,front,middle} x 16 misalignments; random mode draws "
               "from VERIF_SEED. A step signature is (catalogue op, placement class and misalignment of each operand, fault set); it is NON-TRIVIAL when at least one operand "
               "is guard-adjacent or misaligned or a fault (allocation failure, bad index) is armed. distinct_nontrivial counts distinct non-trivial signatures per build configuration.",
        'C05': "A case is one simulated run: 1-12 slice writes A(slice) op= rhs (dynamic, compile-time and scalar-element forms, five operators, scalar/tensor/slice/expression/"
               "evaluation-requiring right-hand sides) on cells placed in a guarded, poisoned arena, checked after every step against a std::vector shadow (bit-exact) plus all "
               "other cells and all poison. A step signature is (catalogue op, operator, rhs kind, extent class mod lane count, stride class, placement); it is NON-TRIVIAL when the "
               "selection is a proper non-empty subset of A and the written values differ from the old ones. distinct_nontrivial counts distinct non-trivial signatures per build configuration.",
        'C18': "A case is one simulated run: 1-10 overlapping assignments dst.noalias() op= f(src...) / dst op= g(coincident src) between views of ONE parent tensor (dynamic, "
               "compile-time, index-tensor, mask, diagonal views; long-lived view handles armed in one step and used in a later one), checked after every step against snapshot "
               "semantics on a std::vector shadow. A step signature is (catalogue op, operator, rhs form, shift/overlap class, handle state); it is NON-TRIVIAL when the overlap was a real "
               "hazard, i.e. a naive in-order element loop would have produced a different result than the snapshot. distinct_nontrivial counts distinct non-trivial signatures per build configuration.",
        'C20': "A case is one simulated run: 1-12 operations applied alternately through TensorMap handles of different same-size shapes over one buffer (raw buffer at a chosen "
               "misalignment and guard side, or an owning tensor with reshape/flatten/squeeze maps) and identically on an ordinary owning twin tensor; after every step buffer bytes == twin bytes, "
               "every other handle observes the new bytes, poison intact. A step signature is (catalogue op, handle index, operator, rhs kind, misalignment, guard side); it is NON-TRIVIAL when a write "
               "through one handle is observed through a different one, or the buffer is misaligned or guard-adjacent. distinct_nontrivial counts distinct non-trivial signatures per build configuration.",
    }[prop]


def assumptions(prop):
    common = ["the op catalogue is finite: shapes, element types and compile-time ranges are those listed by sim/gen/catalog.py",
              "the host CPU executes every ISA natively (SSE2..AVX-512); results hold for the compilers and flags listed under coverage.builds",
              "seeded search samples histories and placements; a clean batch is evidence, not proof"]
    extra = {
        'C07': ["temporaries the library creates on the real stack cannot be placed by the simulator; their over-reads are only visible to the ASan configurations (thorough tier)",
                "back-end kernels taking raw pointers are judged only under the storage contract their in-library callers give them (aligned start, extent rounded up to the alignment)"],
        'C05': ["data are small integers so that + - * and power-of-two / are exact in every element type; bit comparison is therefore sound",
                "values of evaluation-requiring right-hand sides are taken from Fastor's own evaluation on copies of the operands (their correctness is C01/C14's business)"],
        'C18': ["partial overlap without an armed noalias() is undefined by the property and never generated; the executor coerces such a step to a coincident source",
                "diag(A).noalias() does not compile on the pinned tree, so diagonal views take part only in the coincident clause"],
        'C20': ["the twin (an ordinary aligned owning tensor executing the identical operation) is the specification, so value defects common to both paths cannot raise an alarm here",
                "the layout-conversion and constructor clause is a pure function: it is sampled for the catalogue shapes, not decided"],
    }[prop]
    return common + extra


def sanity(prop, counters, runs):
    """conditions under which the machinery itself must be distrusted"""
    msgs = []
    if runs == 0:
        msgs.append('no run was executed')
    if prop == 'C07':
        if counters.get('probe/exempt-op-did-allocate', 0) == 0:
            msgs.append('allocator audit is blind: exempt operations (tovector, operator<<) were never seen allocating')
        if counters.get('probe/exempt-op-did-NOT-allocate', 0) > 0:
            msgs.append('allocator audit is blind: an exempt operation completed without a counted allocation')
    return msgs


# =============================================================================== memsim catalogue
FLOATS = ['float', 'double']
INTS = ['int', 'Int64']
ALLT = FLOATS + INTS


def _lcg(seed):
    x = seed & 0xFFFFFFFF
    while True:
        x = (x * 1664525 + 1013904223) & 0xFFFFFFFF
        yield x >> 8


SHAPES2 = [(1, 1), (2, 2), (3, 3), (4, 4), (2, 3), (3, 2), (3, 4), (4, 5), (5, 7), (7, 5), (3, 8), (2, 9), (8, 3), (3, 15), (2, 16), (3, 17), (9, 9), (1, 7), (5, 1), (8, 8)]
SHAPES3 = [(2, 2, 2), (2, 3, 4), (3, 2, 5), (2, 2, 7), (3, 3, 8), (2, 3, 9), (1, 2, 16), (2, 2, 17), (4, 4, 4), (2, 5, 3)]
SQUARES = [1, 2, 3, 4, 5, 6, 7, 8, 9, 12, 16, 17]


def sizes1(t):
    return list(range(1, 36)) if t in ('float', 'int') else list(range(1, 20))


def matmul_triples(t):
    base = [(2, 2, 2), (3, 3, 3), (4, 4, 4), (8, 8, 8), (3, 3, 1), (1, 3, 3), (3, 1, 3), (1, 1, 1), (2, 3, 4), (5, 5, 5), (3, 9, 1), (9, 3, 3),
            # wide right-hand sides: the interior masked block kernels start at N >= 5 vector widths
            # hand-written kernels for M == N in {2,3,4,8}, K != M: rows of 3 loaded as 4, unpadded operands
            (2, 4, 2), (2, 8, 2), (2, 3, 2), (3, 4, 3), (3, 8, 3), (3, 16, 3), (3, 2, 3), (3, 20, 3), (4, 8, 4), (4, 3, 4), (4, 16, 4), (8, 4, 8), (8, 3, 8), (8, 16, 8),
            (5, 4, 22), (4, 3, 21), (4, 2, 23), (5, 3, 43), (8, 2, 41), (4, 4, 45), (6, 2, 83), (4, 3, 26), (12, 2, 22), (4, 5, 31)]
    Ms = [1, 2, 3, 4, 5, 8]; Ks = [1, 2, 3, 4, 7]; Ns = [1, 2, 3, 4, 5, 6, 7, 8, 9, 10, 12, 15, 16, 17]
    g = _lcg({'float': 11, 'double': 22, 'int': 33}[t])
    out = list(base)
    while len(out) < 108:
        m, k, n = Ms[next(g) % len(Ms)], Ks[next(g) % len(Ks)], Ns[next(g) % len(Ns)]
        if (m, k, n) not in out:
            out.append((m, k, n))
    return out


def memsim_ops(config, flags):
    """list of C++ registration statements"""
    checks = 'FASTOR_ENABLE_RUNTIME_CHECKS=1' in flags or 'NDEBUG' not in flags
    avx2_plus = any(f in flags for f in ('-mavx2', 'avx512', '-mavx ', '-mavx'))
    ops = []

    def reg(fn, fam, fl='0', keep=False):
        ops.append(f'MEMSIM_REG(v, ({fn}), "{fn}", "{fam}", {fl});' + (' /*keep*/' if keep else ''))
    for t in ALLT:
        fp = t in FLOATS
        for n in sizes1(t):
            reg(f'op_map_expr<{t},{n}>', 'map_ew', 'F_ANYALIGN')
            reg(f'op_map_compound<{t},{n}>', 'map_ew', 'F_ANYALIGN')
            reg(f'op_map_scalar<{t},{n}>', 'map_ew', 'F_ANYALIGN')
            reg(f'op_map_methods<{t},{n}>', 'map_methods', 'F_ANYALIGN')
            reg(f'op_map_reduce<{t},{n}>' if fp else f'op_map_reduce_np<{t},{n}>', 'map_reduce', 'F_ANYALIGN')
            reg(f'op_own_methods<{t},{n}>', 'own_methods')
            reg(f'op_view1_dyn<{t},{n}>', 'view_dyn')
            if n % 2 == 1 or n in (2, 4, 8, 16, 32):
                reg(f'op_map_compound_expr<{t},{n}>', 'map_ew', 'F_ANYALIGN')
                reg(f'op_map_to_tensor<{t},{n}>', 'map_ew', 'F_ANYALIGN')
                reg(f'op_map_cmp<{t},{n}>', 'map_reduce', 'F_ANYALIGN')
                reg(f'op_own_expr<{t},{n}>', 'own_ew')
                reg(f'op_own_reduce<{t},{n}>', 'own_reduce')
                if n >= 2:
                    reg(f'op_view1_fixed<{t},{n}>', 'view_fixed')
                reg(f'op_view_mask<{t},{n}>', 'view_mask')
                if n >= 3:
                    reg(f'op_view_index<{t},{n},{max(1, n // 2)}>', 'view_index')
                    reg(f'op_noalias1<{t},{n}>', 'view_noalias', keep=n in (5, 9, 17, 33))
                if fp:
                    reg(f'op_map_math<{t},{n}>', 'map_ew', 'F_ANYALIGN')
                    reg(f'op_own_math<{t},{n}>', 'own_ew')
                    reg(f'op_map_inner_norm<{t},{n}>', 'map_reduce', 'F_ANYALIGN')
        for (m, n) in SHAPES2:
            reg(f'op_map_expr<{t},{m},{n}>', 'map_ew', 'F_ANYALIGN')
            reg(f'op_map_transpose<{t},{m},{n}>', 'map_transpose', 'F_ANYALIGN')
            reg(f'op_map2_fixed_views<{t},{m},{n}>', 'map_view_fixed', 'F_ANYALIGN')
            reg(f'op_map2_dyn_views<{t},{m},{n}>', 'map_view_dyn', 'F_ANYALIGN')
            reg(f'op_map_colmajor<{t},{m},{n}>', 'map_layout', 'F_ANYALIGN')
            reg(f'op_map_ctor_ptr<{t},{m},{n}>', 'ctor', 'F_ANYALIGN')
            reg(f'op_transpose<{t},{m},{n}>', 'transpose')
            reg(f'op_view2_dyn<{t},{m},{n}>', 'view_dyn')
            reg(f'op_view2_fixed<{t},{m},{n}>', 'view_fixed')
            reg(f'op_scalar_index<{t},{m},{n}>', 'scalar_index')
            reg(f'op_ctor_ptr<{t},{m},{n}>', 'ctor', 'F_ANYALIGN')
            reg(f'op_ctor_array<{t},{m},{n}>', 'ctor', 'F_ANYALIGN')
            reg(f'op_colmajor<{t},{m},{n}>', 'layout')
            reg(f'op_reshape<{t},{m},{n}>', 'reshape')
            reg(f'op_own_expr<{t},{m},{n}>', 'own_ew')
            reg(f'op_view_mask<{t},{m},{n}>', 'view_mask')
            if m >= 2 and n >= 2:
                reg(f'op_noalias2<{t},{m},{n}>', 'view_noalias')
            reg(f'op_raw_transpose<{t},{m},{n}>', 'raw_transpose')
            if checks:
                reg(f'op_badindex2<{t},{m},{n}>', 'badindex', 'F_BADINDEX')
                reg(f'op_badindex_map<{t},{m},{n}>', 'badindex', 'F_BADINDEX | F_ANYALIGN')
        for (m, n, p) in SHAPES3:
            reg(f'op_map3_views<{t},{m},{n},{p}>', 'map_view_nd', 'F_ANYALIGN')
            reg(f'op_map_expr<{t},{m},{n},{p}>', 'map_ew', 'F_ANYALIGN')
            reg(f'op_view3_dyn<{t},{m},{n},{p}>', 'view_dyn')
            reg(f'op_view3_fixed<{t},{m},{n},{p}>', 'view_fixed')
            reg(f'op_colmajor<{t},{m},{n},{p}>', 'layout')
            reg(f'op_permute3<{t},{m},{n},{p}>', 'permute')
            reg(f'op_permute_expr<{t},{m},{n},{p}>', 'permute_expr', keep=True)
            if p >= 2:
                reg(f'op_noalias3<{t},{m},{n},{p}>', 'view_noalias')
            reg(f'op_own_reduce<{t},{m},{n},{p}>', 'own_reduce')
            if t != 'Int64':
                reg(f'op_einsum_3<{t},{m},{n},{p}>', 'einsum')
            if checks:
                reg(f'op_badindex3<{t},{m},{n},{p}>', 'badindex', 'F_BADINDEX')
                reg(f'op_badindex_map3<{t},{m},{n},{p}>', 'badindex', 'F_BADINDEX | F_ANYALIGN')
        for n in SQUARES:
            reg(f'op_view_diag<{t},{n}>', 'view_diag')
            if checks:
                reg(f'op_badindex1<{t},{n}>', 'badindex', 'F_BADINDEX')
        if checks:
            for sh4 in ('2,2,2,3', '2,3,2,5', '3,2,4,2'):
                reg(f'op_badindex4<{t},{sh4}>', 'badindex', 'F_BADINDEX')
        reg(f'op_cast<{t},{"double" if t != "double" else "float"},3,5>', 'cast')
        reg(f'op_cast<{t},{"int" if t != "int" else "float"},2,9>', 'cast')
        if not any(x in flags for x in ('avx512', 'DONT_VECTORISE')):      # min()/max() do not compile under AVX-512 (no minimum()/maximum() member)
            for sh in ('3', '5', '9', '17', '33', '3,5', '2,2,7'):
                reg(f'op_minmax<{t},{sh}>', 'minmax', 'F_ANYALIGN', keep=True)
        for sh4 in ('2,3,2,5', '2,2,3,4', '3,2,2,9'):
            reg(f'op_permute4<{t},{sh4}>', 'permute', keep=True)
        for n in (3, 7, 9, 17, 33):
            reg(f'op_map_cast<{t},{"double" if t != "double" else "float"},{n}>', 'map_cast', 'F_ANYALIGN')
        reg(f'op_map_cast<{t},{"int" if t != "int" else "Int64"},3,5>', 'map_cast', 'F_ANYALIGN')
        for sh in ('7', '3,3', '2,3,5', '17'):
            reg(f'op_tovector<{t},{sh}>', 'exempt', 'F_EXEMPT')
            reg(f'op_print<{t},{sh}>', 'exempt', 'F_EXEMPT')
    # complex element types (own SIMD wrappers with interleaved real/imaginary loads and stores)
    # (under FASTOR_DONT_VECTORISE complex tensors do not compile: simd_vector_complex_scalar.h, an API gap)
    for t in (() if 'DONT_VECTORISE' in flags else ('std::complex<float>', 'std::complex<double>')):
        for n in range(1, 20):
            reg(f'op_map_cx<{t},{n}>', 'complex_map', 'F_ANYALIGN', keep=n in (3, 5, 9, 17))
            if n % 2 == 1:
                reg(f'op_own_cx<{t},{n}>', 'complex_own')
        for (m, n) in ((2, 3), (3, 3), (3, 5), (2, 9), (5, 7)):
            reg(f'op_map_cx<{t},{m},{n}>', 'complex_map', 'F_ANYALIGN')
            reg(f'op_transpose<{t},{m},{n}>', 'complex_transpose')
            reg(f'op_map_transpose<{t},{m},{n}>', 'complex_transpose', 'F_ANYALIGN')
        for (m, k, n) in ((2, 2, 2), (3, 3, 3), (2, 5, 3), (4, 3, 5), (3, 2, 9), (5, 5, 1)):
            reg(f'op_matmul<{t},{m},{k},{n}>', 'complex_matmul', keep=True)
            reg(f'op_map_matmul<{t},{m},{k},{n}>', 'complex_matmul', 'F_ANYALIGN')
    for t in ('float', 'double', 'int'):
        for i, (m, k, n) in enumerate(matmul_triples(t)):
            special = n >= 20 or (m == n and m in (2, 3, 4, 8) and k != m)
            reg(f'op_matmul<{t},{m},{k},{n}>', 'matmul', keep=special)
            reg(f'op_raw_matmul<{t},{m},{k},{n}>', 'raw_matmul', keep=special)
            reg(f'op_raw_matmul_probe<{t},{m},{k},{n}>', 'raw_matmul_probe', 'F_UNJUDGED | F_ANYALIGN')
            if i % 2 == 0:
                reg(f'op_map_matmul<{t},{m},{k},{n}>', 'map_matmul', 'F_ANYALIGN')
            if i % 3 == 0:
                reg(f'op_lazy_matmul<{t},{m},{k},{n}>', 'lazy_matmul')
                reg(f'op_map_lazy_matmul<{t},{m},{k},{n}>', 'map_matmul', 'F_ANYALIGN')
            if i % 3 == 1 and t != 'int':
                reg(f'op_tmatmul<{t},{m},{k},{n}>', 'tmatmul')
            if i % 4 == 2:
                reg(f'op_einsum_mm<{t},{m},{k},{n}>', 'einsum')
                reg(f'op_einsum_expr<{t},{m},{k},{n}>', 'einsum_expr')
            if n == 1 or i % 5 == 0:
                reg(f'op_matvec<{t},{m},{k}>', 'matvec')
        for (m, n) in SHAPES2[1:13]:   # outer of two 1-vectors is ambiguous
            reg(f'op_outer_inner<{t},{m},{n}>', 'outer_inner')
            reg(f'op_einsum_outer<{t},{m},{n}>', 'einsum')
    for t in ('float', 'double', 'int'):
        for (m, k, n) in ((3, 3, 3), (4, 5, 6), (2, 7, 9), (8, 8, 8), (17, 3, 5), (24, 24, 24), (32, 4, 32), (36, 2, 36), (20, 20, 20)):
            if t == 'double' and m * n * 8 > 8192:
                continue
            reg(f'op_lazy_matmul_ops<{t},{m},{k},{n}>', 'lazy_matmul_compound', keep=True)
            if t != 'int':
                reg(f'op_lazy_matmul_div<{t},{m},{k},{n}>', 'lazy_matmul_compound', keep=True)
    for t in FLOATS:
        reg(f'op_cross3<{t}>', 'cross')
        reg(f'op_cross2<{t}>', 'cross')
        for n in (2, 3, 4):
            reg(f'op_cof_adj<{t},{n}>', 'cofactor_adjoint')
        for n in (2, 3, 5, 8, 9):
            reg(f'op_det_strategies<{t},{n}>', 'determinant')
        for (m, k, n, p) in ((2, 3, 4, 5), (3, 3, 3, 3), (4, 2, 9, 3), (2, 8, 3, 7)):
            reg(f'op_einsum_chain<{t},{m},{k},{n},{p}>', 'einsum')
        for (m, n) in ((2, 3), (3, 3), (2, 5)):
            reg(f'op_contract4<{t},{m},{n}>', 'einsum')
        for n in range(1, 10):
            if n >= 2:      # determinant of a 1x1 does not compile (_det<T,1,1> missing)
                reg(f'op_inverse<{t},{n}>', 'inverse')
            reg(f'op_trace_norm<{t},{n}>', 'trace_norm')
            if 2 <= n <= 4:   # the raw kernels exist for N = 2..4 only
                reg(f'op_raw_inverse_det<{t},{n}>', 'raw_inverse')
            if n >= 2:
                reg(f'op_inverse_strategies<{t},{n}>', 'inverse')
                reg(f'op_lu<{t},{n}>', 'lu')
                reg(f'op_qr<{t},{n}>', 'qr')
                reg(f'op_solve<{t},{n},{1 + n % 3}>', 'solve')
        for n in (2, 3, 4, 5, 7, 8, 12):
            reg(f'op_piv_expr<{t},{n}>', 'pivoted_factorisation', keep=True)
            reg(f'op_piv_solve_inv<{t},{n}>', 'pivoted_solve', keep=True)
        for n in (12, 16, 17, 20):
            reg(f'op_inverse_strategies<{t},{n}>', 'inverse')
            reg(f'op_lu<{t},{n}>', 'lu')
            reg(f'op_solve<{t},{n},2>', 'solve')
    return ops


def write_shards(bdir, ns, headers, prelude, ops, regmacro, simd_all=None):
    """ops: list of C++ registration statements; distributes round-robin into NSHARDS files"""
    files = []
    n = min(NSHARDS, max(1, len(ops)))
    buckets = [[] for _ in range(n)]
    for i, o in enumerate(ops):
        buckets[i % n].append(o)
    inc = ''.join(f'#include "{h}"\n' for h in headers)
    decl = []
    for i, b in enumerate(buckets):
        fn = f'fsim_shard_{i}'
        p = os.path.join(bdir, f'shard_{i:02d}.cpp')
        with open(p, 'w') as f:
            f.write(inc + prelude)
            f.write(f'namespace {ns} {{ void {fn}(std::vector<OpDesc> &v) {{\n')
            for o in b:
                f.write('    ' + o + '\n')
            f.write('} }\n')
        files.append(p); decl.append(fn)
    return files, decl


def gen_memsim(bdir, config, flags):
    stmts = ['reg_simd_all(v);']
    ops = memsim_ops(config, flags)
    if config.startswith('asan'):
        # a sanitizer report kills the process, so it cannot be "unjudged": probes outside the storage contract are left out
        ops = [o for o in ops if 'F_UNJUDGED' not in o]
    if config.endswith('@lite'):
        # quick tier: every second catalogue entry (exempt and bad-index families kept whole)
        ops = [o for i, o in enumerate(ops) if i % 2 == 0 or 'F_EXEMPT' in o or 'F_BADINDEX' in o or '/*keep*/' in o]
    stmts += ops
    files, decl = write_shards(bdir, 'memsim', ['memsim.h', 'ops_simd.h', 'ops_map.h', 'ops_own.h', 'ops_misc.h'], 'using namespace Fastor;\n', stmts, None)
    with open(os.path.join(bdir, 'shards.inc'), 'w') as f:
        f.write('namespace memsim {\n')
        for d in decl:
            f.write(f'void {d}(std::vector<OpDesc> &);\n')
        f.write('static const RegFn SHARD_FNS[] = {' + ', '.join(decl) + '};\n}\n')
    return files




# =============================================================================== viewsim catalogue
V_SHAPES = {
    1: [(3,), (5,), (8,), (9,), (12,), (16,), (17,), (33,), (40,), (72,), (136,), (264,)],   # long 1-D shapes: block-wise staging thresholds
    2: [(2, 2), (3, 4), (4, 5), (3, 8), (5, 9), (2, 16), (3, 17), (4, 4), (8, 8)],
    3: [(2, 2, 2), (2, 3, 4), (2, 3, 8), (3, 2, 9), (2, 2, 17)],
    4: [(2, 2, 2, 3), (2, 2, 3, 8)],
}


def axis_ranges(n):
    """candidate compile-time ranges (F,L,S) on an axis of extent n, without the full range"""
    out = []
    for k in (4, 8, 16, 32):
        if k < n:
            out.append((0, k, 1)); out.append((n - k, n, 1))
    if n >= 2:
        out += [(1, n, 1), (0, n - 1, 1), (n - 1, n, 1), (0, 1, 1)]
    if n >= 3:
        out += [(0, n, 2), (1, n, 2), (1, n - 1, 1)]
    if n >= 5:
        out += [(0, n - 1, 2), (1, n, 3), (2, min(n, 7), 1)]
    seen = []
    for r in out:
        if r not in seen:
            seen.append(r)
    return seen


def ext(r):
    f, l, s = r
    return (l - f + s - 1) // s


def fs(r):
    return f'fseq<{r[0]},{r[1]},{r[2]}>'


def src_for(r, n, g):
    """another range of equal extent on an axis of extent n"""
    e = ext(r)
    cands = []
    for s in (1, 2, 3):
        span = (e - 1) * s + 1
        for f in range(0, n - span + 1):
            cands.append((f, f + span, s))
    cands = [c for c in cands if c != r] or [r]
    return cands[next(g) % len(cands)]


def viewsim_universe(t, shape, config, flags):
    """returns (typename, list of (opname, family, kind_expr, props), list of fix registrations)"""
    R = len(shape)
    g = _lcg(hash((t, shape)) & 0xFFFFFF if False else sum(shape) * 131 + len(t) * 7 + R)
    dims = ','.join(map(str, shape))
    uname = f'{t},{dims}'
    ops = [(f'dyn_write<{uname}>', 'dyn_write', 'K_DYN_WRITE', 'P_C05'), (f'elem_write<{uname}>', 'elem_write', 'K_ELEM_WRITE', 'P_C05'),
           (f'bad_elem<{uname}>', 'bad_elem', 'K_BAD_ELEM', 'P_C05 | P_C18')]
    mapparent = 'VIEWSIM_MAP_PARENT' in flags      # destination is a TensorMap: C05 kinds only (noalias() on views of maps does not compile)
    if R <= 2 and not mapparent and 'VECTORISED_EXPR_ASSIGN' not in flags:
        ops += [(f'bool_write<{uname}>', 'bool_write', 'K_BOOL_WRITE', 'P_C05')]
    if R >= 2:
        ops += [(f'flat_write<{uname}>', 'flat_write', 'K_FLAT_WRITE', 'P_C05')]
    if R == 3 and mapparent:
        ops += [(f'dyn_alias<{uname}>', 'dyn_alias', 'K_DYN_ALIAS', 'P_C18')]
    if R <= 3 and not mapparent:
        ops += [(f'dyn_alias<{uname}>', 'dyn_alias', 'K_DYN_ALIAS', 'P_C18'), (f'h_create<{uname}>', 'handle', 'K_H_CREATE', 'P_C18'),
                (f'h_noalias<{uname}>', 'handle', 'K_H_NOALIAS', 'P_C18'), (f'h_assign<{uname}>', 'handle_assign', 'K_H_ASSIGN', 'P_C18')]
    if R <= 2 and not mapparent:
        ops += [(f'idx_alias<{uname}>', 'idx_alias', 'K_IDX_ALIAS', 'P_C18'), (f'mask_alias<{uname}>', 'mask_alias', 'K_MASK_ALIAS', 'P_C18')]
    if R == 2 and shape[0] == shape[1] and not mapparent:
        ops += [(f'diag_coinc<{uname}>', 'diag_coincident', 'K_DIAG', 'P_C18')]
    fix = []
    full = [(0, -1, 1)]

    def name(rs):
        return '|'.join(f'{r[0]}:{r[1]}:{r[2]}' for r in rs)
    # ---- C05 fixed writes
    writes = []
    per_axis = [axis_ranges(n) for n in shape]
    if R == 1:
        writes = [[r] for r in per_axis[0]] + [full]
    else:
        # vary one axis at a time, the others full; plus mixed combinations
        for k in range(R):
            for r in per_axis[k][:6]:
                w = [(0, -1, 1)] * R
                w[k] = r
                writes.append(w)
        for _ in range(6):
            writes.append([per_axis[k][next(g) % len(per_axis[k])] for k in range(R)])
        writes.append([(0, -1, 1)] * R)
    limit = 12 if R == 1 else 10
    # deterministic thinning, keep order
    if len(writes) > limit:
        step = len(writes) / limit
        writes = [writes[int(i * step)] for i in range(limit)]
    for w in writes:
        src = []
        for k, r in enumerate(w):
            n = shape[k]
            rr = (0, n, 1) if r == (0, -1, 1) else r
            src.append(src_for(rr, n, g))
        nm = f'fix_write<{uname}|{name(w)}>'
        fix.append((nm, 'fix_write', f'FixWrite<U, seqs<{",".join(fs(r) for r in w)}>, seqs<{",".join(fs(r) for r in src)}>>::go', 'P_C05'))
    # ---- C18 fixed aliasing pairs (rank <= 3); also on map parents: noalias() on COMPILE-TIME views of a map does compile
    if R <= 3:
        pairs = []
        for k in range(R):
            n = shape[k]
            if n < 2:
                continue
            for d in (1, 2, 4):
                if d < n:
                    a = (d, n, 1); b = (0, n - d, 1)
                    pairs.append((k, a, b)); pairs.append((k, b, a))
            if n >= 4:
                pairs.append((k, (0, n - 1, 2), (1, n, 2))); pairs.append((k, (1, n, 2), (0, n - 1, 2)))
            if n >= 5:
                e = (n - 1) // 2
                pairs.append((k, (0, e, 1), (1, 2 * e, 2)))          # contiguous destination, strided source
        lim = 10 if R == 1 else 9
        if len(pairs) > lim:
            stp = len(pairs) / lim
            pairs = [pairs[int(i * stp)] for i in range(lim)]
        for (k, a, b) in pairs:
            dst = [(0, -1, 1)] * R; srcr = [(0, -1, 1)] * R
            dst[k] = a; srcr[k] = b
            nm = f'fix_alias<{uname}|{name(dst)}<-{name(srcr)}>'
            fix.append((nm, 'fix_alias', f'FixAlias<U, seqs<{",".join(fs(r) for r in dst)}>, seqs<{",".join(fs(r) for r in srcr)}>, false>::go', 'P_C18'))
        # coincident clause: identical ranges, no noalias()
        coin = []
        for k in range(R):
            for r in per_axis[k][:2]:
                w = [(0, -1, 1)] * R
                w[k] = r
                coin.append(w)
        for w in coin[:3]:
            nm = f'fix_coincident<{uname}|{name(w)}>'
            fix.append((nm, 'fix_alias', f'FixAlias<U, seqs<{",".join(fs(r) for r in w)}>, seqs<{",".join(fs(r) for r in w)}>, true>::go', 'P_C18'))
    return uname, ops, fix


def viewsim_universes(config, flags, dense=True):
    us = []
    for R in (1, 2, 3, 4):
        for i, shape in enumerate(V_SHAPES[R]):
            for j, t in enumerate(ALLT):
                if not dense and (i + j) % 2:
                    continue
                us.append((t, shape))
    return us


def gen_viewsim(bdir, config, flags):
    files = []; decl = []
    for ui, (t, shape) in enumerate(viewsim_universes(config, flags, dense=not config.endswith('@lite'))):
        uname, ops, fix = viewsim_universe(t, shape, config, flags)
        fn = f'fsim_shard_{ui}'
        p = os.path.join(bdir, f'shard_{ui:03d}.cpp')
        with open(p, 'w') as f:
            f.write('#include "fixops.h"\nnamespace viewsim {\n')
            f.write(f'using U = Uni<{uname}>;\n')
            f.write(f'static UniverseBase *make_u() {{ U *u = new U("{uname}");\n')
            for (nm, fam, fnx, props) in fix:
                f.write(f'    u->fix.push_back(FixOp<U>{{"{nm}", "{fam}", &{fnx}}});\n')
            f.write('    return u; }\n')
            f.write(f'void {fn}(Registry &r) {{\n    uint32_t ui = (uint32_t)r.factories.size(); r.factories.push_back(&make_u); r.uni_names.push_back("{uname}"); r.uni_ops.emplace_back();\n')
            f.write('    auto add = [&](const char *n, const char *fam, uint32_t kind, uint32_t props) { r.uni_ops[ui].push_back((uint32_t)r.ops.size()); r.ops.push_back(OpDesc{n, fam, ui, kind, props}); };\n')
            for (nm, fam, kind, props) in ops:
                f.write(f'    add("{nm}", "{fam}", {kind}, {props});\n')
            for k, (nm, fam, fnx, props) in enumerate(fix):
                f.write(f'    add("{nm}", "{fam}", K_FIX_BASE + {k}, {props});\n')
            f.write('}\n}\n')
        files.append(p); decl.append(fn)
    with open(os.path.join(bdir, 'shards.inc'), 'w') as f:
        f.write('namespace viewsim {\n')
        for d in decl:
            f.write(f'void {d}(Registry &);\n')
        f.write('static const RegFn SHARD_FNS[] = {' + ', '.join(decl) + '};\n}\n')
    return files


# =============================================================================== mapsim catalogue
M_SHAPES = [((6,), (2, 3), (3, 2)), ((12,), (3, 4), (2, 2, 3)), ((16,), (4, 4), (2, 2, 4)), ((17,), (1, 17), (17, 1)), ((24,), (4, 6), (2, 3, 4)),
            ((9,), (3, 3), (1, 9)), ((35,), (5, 7), (7, 5)), ((64,), (8, 8), (4, 4, 4)), ((30,), (2, 15), (2, 3, 5)), ((48,), (6, 8), (2, 2, 3, 4)),
            ((7,), (7, 1), (1, 1, 7)), ((33,), (3, 11), (11, 3)), ((12,), (2, 6), (2, 3, 2)), ((12,), (4, 3), (3, 2, 2)), ((8,), (2, 4), (2, 1, 4))]
M_KINDS = ['K_SCALAR', 'K_TENSOR', 'K_EXPR', 'K_SELF_EXPR', 'K_METHOD', 'K_ELEM', 'K_FIXVIEW', 'K_DYNVIEW', 'K_REDUCE', 'K_READ_EXPR', 'K_MATMUL',
           'K_REWRAP', 'K_SOURCE_WRITE', 'K_CTOR_LAYOUT', 'K_MAP_COPY', 'K_CROSS_HANDLE', 'K_BAD_ELEM']


def gen_il_header(bdir):
    """initializer-list construction for every rank-2 and rank-3 shape of the mapsim catalogue (nested literal lists)"""
    seen = set(); out = ['// generated by sim/gen/catalog.py', 'namespace mapsim {']
    for shapes in M_SHAPES:
        for sh in shapes:
            if len(sh) not in (2, 3) or sh in seen:
                continue
            seen.add(sh)
            if len(sh) == 2:
                m, n = sh
                body = '{' + ', '.join('{' + ', '.join(f'v[{i * n + j}]' for j in range(n)) + '}' for i in range(m)) + '}'
            else:
                m, n, p = sh
                body = '{' + ', '.join('{' + ', '.join('{' + ', '.join(f'v[{(i * n + j) * p + k}]' for k in range(p)) + '}' for j in range(n)) + '}' for i in range(m)) + '}'
            dims = ', '.join(map(str, sh))
            out.append(f'template <class Ten, class T> struct IL<Ten, T, shape_<{dims}>> {{ enum {{ available = 1 }}; static Ten make(const T *v) {{ return Ten{body}; }} }};')
    # extra non-square rank-3 shapes that are not handles of any universe are exercised by the constructor step directly
    out.append('}')
    with open(os.path.join(bdir, 'il_gen.h'), 'w') as f:
        f.write('\n'.join(out) + '\n')


def gen_mapsim(bdir, config, flags):
    files = []; decl = []
    gen_il_header(bdir)
    lite = config.endswith('@lite')
    ui = 0
    for i, shapes in enumerate(M_SHAPES):
        for j, t in enumerate(ALLT):
            if lite and (i + j) % 2:
                continue
            sh = ', '.join('shape_<' + ','.join(map(str, s)) + '>' for s in shapes)
            uname = f'{t}|' + '|'.join('x'.join(map(str, s)) for s in shapes)
            fn = f'fsim_shard_{ui}'
            p = os.path.join(bdir, f'shard_{ui:03d}.cpp')
            with open(p, 'w') as f:
                f.write('#include "universe.h"\nnamespace mapsim {\n')
                f.write(f'using U = MU<{t}, {sh}>;\n')
                f.write(f'static UniverseBase *make_u() {{ return new U("{uname}"); }}\n')
                f.write(f'void {fn}(Registry &r) {{\n    uint32_t ui = (uint32_t)r.factories.size(); r.factories.push_back(&make_u); r.uni_names.push_back("{uname}"); r.uni_ops.emplace_back();\n')
                for k in M_KINDS:
                    nm = f'{k[2:].lower()}<{uname}>'
                    f.write(f'    r.uni_ops[ui].push_back((uint32_t)r.ops.size()); r.ops.push_back(OpDesc{{"{nm}", "{k[2:].lower()}", ui, {k}}});\n')
                f.write('}\n}\n')
            files.append(p); decl.append(fn); ui += 1
    with open(os.path.join(bdir, 'shards.inc'), 'w') as f:
        f.write('namespace mapsim {\n')
        for d in decl:
            f.write(f'void {d}(Registry &);\n')
        f.write('static const RegFn SHARD_FNS[] = {' + ', '.join(decl) + '};\n}\n')
    return files


def generate(sim, bdir, config, flags):
    if sim == 'memsim':
        return gen_memsim(bdir, config, flags)
    if sim == 'viewsim':
        return gen_viewsim(bdir, config, flags)
    if sim == 'mapsim':
        return gen_mapsim(bdir, config, flags)
    raise KeyError(sim)
