// fsim: deterministic-simulation core shared by memsim / viewsim / mapsim.
//
// One integer decides everything: a run is  plan(seed,index) -> execute -> judge.
// The plan is generated completely before execution; execution draws nothing
// from the PRNG, reads no clock and logs no raw address.
#ifndef FSIM_H
#define FSIM_H

#include <cstdint>
#include <cstddef>
#include <cstring>
#include <cstdio>
#include <cstdlib>
#include <csetjmp>
#include <csignal>
#include <new>
#include <stdexcept>
#include <string>
#include <vector>
#include <map>
#include <unordered_set>

namespace fsim {

// ---------------------------------------------------------------- PRNG
static inline uint64_t splitmix64(uint64_t &x) {
    uint64_t z = (x += 0x9E3779B97F4A7C15ull);
    z = (z ^ (z >> 30)) * 0xBF58476D1CE4E5B9ull;
    z = (z ^ (z >> 27)) * 0x94D049BB133111EBull;
    return z ^ (z >> 31);
}
static inline uint64_t mix2(uint64_t a, uint64_t b) {
    uint64_t x = a ^ (b * 0xD6E8FEB86659FD93ull) ^ 0x2545F4914F6CDD1Dull;
    splitmix64(x); return splitmix64(x);
}
struct Rng {
    uint64_t s[4];
    explicit Rng(uint64_t seed) { uint64_t x = seed; for (auto &v : s) v = splitmix64(x); }
    static inline uint64_t rotl(uint64_t x, int k) { return (x << k) | (x >> (64 - k)); }
    uint64_t next() {
        uint64_t r = rotl(s[1] * 5, 7) * 9, t = s[1] << 17;
        s[2] ^= s[0]; s[3] ^= s[1]; s[1] ^= s[2]; s[0] ^= s[3]; s[2] ^= t; s[3] = rotl(s[3], 45);
        return r;
    }
    uint32_t u32() { return (uint32_t)(next() >> 32); }
    uint32_t below(uint32_t n) { return n ? (uint32_t)((next() >> 33) % n) : 0; }
    bool chance(uint32_t num, uint32_t den) { return below(den) < num; }
};

// ---------------------------------------------------------------- event hash
struct Hash {
    uint64_t h = 0xcbf29ce484222325ull;
    void u64(uint64_t v) { h ^= v; h *= 0x100000001b3ull; h ^= h >> 29; }
    void bytes(const void *p, size_t n) {
        const uint8_t *b = (const uint8_t *)p; uint64_t acc = 0; size_t i = 0;
        for (; i + 8 <= n; i += 8) { memcpy(&acc, b + i, 8); u64(acc); }
        acc = 0; if (i < n) { memcpy(&acc, b + i, n - i); u64(acc ^ ((uint64_t)(n - i) << 56)); }
        u64(n);
    }
    void str(const char *s) { bytes(s, strlen(s)); }
};

// ---------------------------------------------------------------- plan
enum { NARGS = 14, NHDR = 12 };
struct Step { uint32_t op = 0; uint32_t a[NARGS] = {0}; };
struct Plan { uint32_t hdr[NHDR] = {0}; std::vector<Step> steps; };

// ---------------------------------------------------------------- arena
// slot layout: [PROT_NONE page][data pages][PROT_NONE page]
enum { NSLOTS = 8, PAGE = 4096, SLOT_PAGES = 4, SLOT_BYTES = PAGE * SLOT_PAGES, MAXRANGES = 12 };
enum Side : uint32_t { MIDDLE = 0, BACK = 1, FRONT = 2 };
enum { NPOISON = 6 };

struct Range { uint32_t off, len; bool output; };
struct Slot {
    uint8_t *data = nullptr;      // first data byte
    uint32_t poison = 0;
    int nranges = 0;
    Range ranges[MAXRANGES];
};
struct Arena {
    Slot slot[NSLOTS];
    void init();
    // fill the complete data region of a slot with a poison pattern and forget its ranges
    void reset(int s, uint32_t pattern);
    // carve bytes at a plan-dictated placement; align must be a power of two
    uint8_t *place(int s, size_t bytes, size_t align, uint32_t side, uint32_t backoff, bool output);
    // re-fill everything that is not a declared range with another pattern (non-interference pair)
    void repoison(int s, uint32_t pattern);
    // returns -1 if every non-range byte still carries the slot's poison, else first bad offset
    long check_poison(int s) const;
    // which slot does this address fall in (data or guards); -1 = none. off relative to data start
    int locate(const void *p, long &off) const;
};
extern Arena g_arena;
uint8_t poison_byte(uint32_t pattern, uint32_t off);

// ---------------------------------------------------------------- windows (signal + allocator audit)
struct Outcome {
    int kind = 0;          // 0 ok, 1 signal, 2 std::runtime_error, 3 std::bad_alloc, 4 other exception
    int signo = 0, code = 0, write = 0, slot = -1; long off = 0;
    uint32_t allocs = 0;   // allocation requests seen inside the window
    const char *what() const;
    void hash_into(Hash &h) const;
    void describe(char *buf, size_t n) const;
};
struct WindowCtl {
    volatile int open;
    volatile int fail_alloc;
    volatile uint32_t allocs;
    sigjmp_buf env;
    Outcome sig;
};
extern WindowCtl g_win;
void install_signal_layer();
void set_current_run(uint64_t idx);   // reported when the worker dies outside a window

// Uninitialised stack is a source of nondeterminism too: before every window the region the
// operation's frames will occupy is filled with a plan-chosen byte, so a read of stale stack is
// repeatable and (because the byte differs between the two passes of memsim) observable.
__attribute__((noinline)) void scrub_stack(uint8_t byte);
extern volatile uint8_t g_scrub_byte;

// sanitised builds: every arena byte that is not a declared operand is ASan-poisoned while an operation runs,
// so redzones are byte-exact on both sides of every operand at once (no-ops in ordinary builds)
void asan_arm();
void asan_disarm();
void watchdog(bool on);

// The alignment of the stack is a source of nondeterminism as well (ASLR moves the stack base in 16-byte steps): an
// alignment-requiring access to an under-aligned local faults in one process and not in the next. Every window therefore
// starts from a stack pointer that is page aligned minus a plan-chosen skew (a multiple of 16), which makes such faults
// repeatable and lets the plan explore the four 16-byte residues of a 64-byte line.
extern volatile uint32_t g_stack_skew;
template <class F> __attribute__((noinline)) void invoke_below(F &&f) { f(); __asm__ volatile("" ::: "memory"); }   // its frame (and everything inlined into it) lies BELOW the alloca
template <class F> __attribute__((noinline)) void call_on_aligned_stack(F &&f) {
    char probe; uintptr_t here = (uintptr_t)&probe;
    size_t pad = (here & 4095) + 4096 + (g_stack_skew & 0x30);          // sp' = page boundary below `here`, minus one page, minus skew
    volatile char *p = (volatile char *)__builtin_alloca(pad); p[0] = 0; p[pad - 1] = 0;
    invoke_below(f);
}

template <class F>
__attribute__((noinline)) Outcome window(F &&f, bool fail_alloc) {
    Outcome o;
    scrub_stack(g_scrub_byte);
    asan_arm();
    g_win.allocs = 0; g_win.fail_alloc = fail_alloc ? 1 : 0;
    if (sigsetjmp(g_win.env, 1) == 0) {
        g_win.open = 1;
        watchdog(true);          // a library loop that never terminates must not hang the check: SIGALRM ends the window
        try { call_on_aligned_stack(f); g_win.open = 0; }
        catch (const std::bad_alloc &) { g_win.open = 0; o.kind = 3; }
        catch (const std::runtime_error &) { g_win.open = 0; o.kind = 2; }
        catch (...) { g_win.open = 0; o.kind = 4; }
    } else {
        g_win.open = 0; o = g_win.sig; o.kind = 1;
    }
    g_win.fail_alloc = 0;
    watchdog(false);
    asan_disarm();
    o.allocs = g_win.allocs;
    return o;
}

// ---------------------------------------------------------------- verdicts and counters
struct Verdict {
    bool bad = false;
    int step = -1;
    char klass[96] = {0};     // stable class: "<kind>/<op family>" -- shrinking keeps this fixed
    char op[160] = {0};       // name of the catalogue entry whose step failed (known-finding key)
    char detail[320] = {0};
    void set(int st, const char *k, const char *opname, const char *fmt, ...) __attribute__((format(printf, 5, 6)));
};
struct Counters {
    std::map<std::string, uint64_t> c;
    std::unordered_set<uint64_t> sig_all, sig_nontrivial, seq3;
    void bump(const char *k, uint64_t n = 1) { c[k] += n; }
    void bump(const std::string &k, uint64_t n = 1) { c[k] += n; }
};
struct RunResult { Verdict v; uint64_t hash = 0; uint32_t steps = 0; };

// ---------------------------------------------------------------- world interface (one per simulator binary)
struct World {
    const char *sim_name;
    virtual uint32_t n_ops() const = 0;
    virtual const char *op_name(uint32_t op) const = 0;
    // mode: 0 = seeded random plan, 1 = stratified sweep (index selects the cell)
    virtual void gen_plan(const char *prop, int mode, uint64_t seed, uint64_t index, Plan &p) = 0;
    virtual uint64_t sweep_size(const char *prop) const { (void)prop; return 0; }
    virtual RunResult exec_plan(const char *prop, const Plan &p, Counters *cnt, FILE *log) = 0;
    // per-step simplification order used by the shrinker: which args may be lowered towards 0
    virtual bool arg_shrinkable(uint32_t argi) const { (void)argi; return true; }
    virtual ~World() {}
};
World *make_world();   // defined by the simulator

int fsim_main(int argc, char **argv);

} // namespace fsim
#endif
