// fsim core: arena with guard pages and poison, signal layer, allocator interposer,
// plan (de)serialisation, run loop, fork-isolated shrinker.
#include "fsim.h"
#include <cstdarg>
#include <ctime>
#include <cerrno>
#include <unistd.h>
#include <sys/mman.h>
#include <sys/wait.h>
#include <ucontext.h>
#include <exception>

namespace fsim {

Arena g_arena;
WindowCtl g_win;
static volatile uint64_t g_current_run = 0;
volatile int g_watchdog_fired = 0;
volatile uint8_t g_scrub_byte = 0;
volatile uint32_t g_stack_skew = 0;
__attribute__((noinline)) void scrub_stack(uint8_t byte) {
    volatile uint8_t buf[48 * 1024];
    memset((void *)buf, byte, sizeof buf);
    __asm__ volatile("" ::: "memory");
    // vector registers are caller-saved scratch: give them a fixed content too
#if defined(__AVX512F__)
    __asm__ volatile("vzeroall\n"
        "vpxord %%zmm16,%%zmm16,%%zmm16\n vpxord %%zmm17,%%zmm17,%%zmm17\n vpxord %%zmm18,%%zmm18,%%zmm18\n vpxord %%zmm19,%%zmm19,%%zmm19\n"
        "vpxord %%zmm20,%%zmm20,%%zmm20\n vpxord %%zmm21,%%zmm21,%%zmm21\n vpxord %%zmm22,%%zmm22,%%zmm22\n vpxord %%zmm23,%%zmm23,%%zmm23\n"
        "vpxord %%zmm24,%%zmm24,%%zmm24\n vpxord %%zmm25,%%zmm25,%%zmm25\n vpxord %%zmm26,%%zmm26,%%zmm26\n vpxord %%zmm27,%%zmm27,%%zmm27\n"
        "vpxord %%zmm28,%%zmm28,%%zmm28\n vpxord %%zmm29,%%zmm29,%%zmm29\n vpxord %%zmm30,%%zmm30,%%zmm30\n vpxord %%zmm31,%%zmm31,%%zmm31\n"
        ::: "xmm0", "xmm1", "xmm2", "xmm3", "xmm4", "xmm5", "xmm6", "xmm7", "xmm8", "xmm9", "xmm10", "xmm11", "xmm12", "xmm13", "xmm14", "xmm15",
            "xmm16", "xmm17", "xmm18", "xmm19", "xmm20", "xmm21", "xmm22", "xmm23", "xmm24", "xmm25", "xmm26", "xmm27", "xmm28", "xmm29", "xmm30", "xmm31");
#elif defined(__AVX__)
    __asm__ volatile("vzeroall" ::: "xmm0", "xmm1", "xmm2", "xmm3", "xmm4", "xmm5", "xmm6", "xmm7", "xmm8", "xmm9", "xmm10", "xmm11", "xmm12", "xmm13", "xmm14", "xmm15");
#elif defined(__SSE2__)
    __asm__ volatile("pxor %%xmm0,%%xmm0\n pxor %%xmm1,%%xmm1\n pxor %%xmm2,%%xmm2\n pxor %%xmm3,%%xmm3\n pxor %%xmm4,%%xmm4\n pxor %%xmm5,%%xmm5\n pxor %%xmm6,%%xmm6\n pxor %%xmm7,%%xmm7\n"
        "pxor %%xmm8,%%xmm8\n pxor %%xmm9,%%xmm9\n pxor %%xmm10,%%xmm10\n pxor %%xmm11,%%xmm11\n pxor %%xmm12,%%xmm12\n pxor %%xmm13,%%xmm13\n pxor %%xmm14,%%xmm14\n pxor %%xmm15,%%xmm15\n"
        ::: "xmm0", "xmm1", "xmm2", "xmm3", "xmm4", "xmm5", "xmm6", "xmm7", "xmm8", "xmm9", "xmm10", "xmm11", "xmm12", "xmm13", "xmm14", "xmm15");
#endif
}
static volatile int g_in_run = 0;

// ================================================================ poison
uint8_t poison_byte(uint32_t pattern, uint32_t off) {
    switch (pattern % NPOISON) {
    case 0: return 0x00;
    case 1: return 0xFF;                       // all-ones: quiet NaN / -1
    case 2: return 0xA5;
    case 3: { static const uint8_t snan[4] = {0x01, 0x00, 0xA0, 0x7F}; return snan[off & 3]; }   // float signalling NaN words
    case 4: { uint32_t x = off * 2654435761u + 0x9E3779B9u; x ^= x >> 15; x *= 0x85EBCA6Bu; x ^= x >> 13; return (uint8_t)(x >> 8); }
    default: { uint32_t x = (off ^ 0x5bd1e995u) * 0xC2B2AE35u; x ^= x >> 16; x *= 0x27D4EB2Fu; x ^= x >> 15; return (uint8_t)x; }
    }
}

// ================================================================ arena
static uint8_t g_pat[NPOISON][SLOT_BYTES];
void Arena::init() {
    for (int s = 0; s < NSLOTS; ++s) {
        size_t total = (size_t)SLOT_BYTES + 2 * PAGE;
        void *m = mmap(nullptr, total, PROT_NONE, MAP_PRIVATE | MAP_ANONYMOUS, -1, 0);
        if (m == MAP_FAILED) { perror("mmap"); _exit(2); }
        uint8_t *b = (uint8_t *)m;
        if (mprotect(b + PAGE, SLOT_BYTES, PROT_READ | PROT_WRITE) != 0) { perror("mprotect"); _exit(2); }
        slot[s].data = b + PAGE;
        if (s == 0) for (uint32_t pt = 0; pt < NPOISON; ++pt) for (uint32_t i = 0; i < SLOT_BYTES; ++i) g_pat[pt][i] = poison_byte(pt, i);
        reset(s, 0);
    }
}
void Arena::reset(int s, uint32_t pattern) {
    Slot &sl = slot[s]; sl.poison = pattern % NPOISON; sl.nranges = 0;
    memcpy(sl.data, g_pat[pattern % NPOISON], SLOT_BYTES);
}
uint8_t *Arena::place(int s, size_t bytes, size_t align, uint32_t side, uint32_t backoff, bool output) {
    Slot &sl = slot[s];
    if (bytes == 0 || bytes > SLOT_BYTES / 2 || sl.nranges >= MAXRANGES) { fprintf(stderr, "fsim: bad placement request (%zu bytes)\n", bytes); _exit(2); }
    if (align == 0) align = 1;
    size_t bo = ((size_t)backoff % 64) / align * align;     // misalignment 0..63, multiple of the required alignment
    size_t start;
    switch (side % 3) {
    case BACK:  start = (SLOT_BYTES - bytes) / align * align; start = start >= bo ? start - bo : 0; break;
    case FRONT: start = bo; break;
    default:    start = (SLOT_BYTES / 2 - bytes / 2) / 64 * 64 + bo; break;
    }
    // later operands in the same slot stack downwards/upwards away from existing ranges
    for (int guard = 0; guard < 64; ++guard) {
        bool clash = false;
        for (int r = 0; r < sl.nranges; ++r) {
            size_t a = sl.ranges[r].off, b = a + sl.ranges[r].len;
            if (start < b + 64 && a < start + bytes + 64) { clash = true;
                if (side % 3 == BACK) start = (a >= bytes + 192 ? (a - bytes - 128) / align * align : SLOT_BYTES);
                else start = (b + 128 + align - 1) / align * align;
            }
        }
        if (!clash) break;
    }
    if (start + bytes > SLOT_BYTES) { fprintf(stderr, "fsim: slot %d overflow\n", s); _exit(2); }
    sl.ranges[sl.nranges++] = Range{(uint32_t)start, (uint32_t)bytes, output};
    return sl.data + start;
}
void Arena::repoison(int s, uint32_t pattern) {
    Slot &sl = slot[s]; sl.poison = pattern % NPOISON;
    static uint8_t keep[SLOT_BYTES];
    memset(keep, 0, sizeof keep);
    for (int r = 0; r < sl.nranges; ++r) memset(keep + sl.ranges[r].off, 1, sl.ranges[r].len);
    for (uint32_t i = 0; i < SLOT_BYTES; ++i) if (!keep[i]) sl.data[i] = g_pat[sl.poison][i];
}
long Arena::check_poison(int s) const {
    const Slot &sl = slot[s];
    // sort-free scan: walk bytes, skipping ranges
    uint32_t i = 0;
    while (i < SLOT_BYTES) {
        bool skipped = false;
        for (int r = 0; r < sl.nranges; ++r)
            if (i >= sl.ranges[r].off && i < sl.ranges[r].off + sl.ranges[r].len) { i = sl.ranges[r].off + sl.ranges[r].len; skipped = true; break; }
        if (skipped) continue;
        uint32_t end = SLOT_BYTES;
        for (int r = 0; r < sl.nranges; ++r) if (sl.ranges[r].off > i && sl.ranges[r].off < end) end = sl.ranges[r].off;
        const uint8_t *ref = g_pat[sl.poison % NPOISON];
        if (memcmp(sl.data + i, ref + i, end - i) != 0) {
            for (uint32_t k = i; k < end; ++k) if (sl.data[k] != ref[k]) return (long)k;
        }
        i = end;
    }
    return -1;
}
int Arena::locate(const void *p, long &off) const {
    const uint8_t *q = (const uint8_t *)p;
    for (int s = 0; s < NSLOTS; ++s) {
        const uint8_t *lo = slot[s].data - PAGE, *hi = slot[s].data + SLOT_BYTES + PAGE;
        if (q >= lo && q < hi) { off = (long)(q - slot[s].data); return s; }
    }
    off = 0; return -1;
}

// ================================================================ ASan cooperation
#ifdef FSIM_ASAN
} // namespace fsim
#include <sanitizer/asan_interface.h>
extern "C" __attribute__((used, visibility("default"))) const char *__asan_default_options() {
    return "exitcode=77:detect_leaks=0:allow_user_segv_handler=1:handle_segv=0:handle_sigbus=0:handle_sigfpe=0:handle_sigill=0:detect_stack_use_after_return=0:abort_on_error=0";
}
namespace fsim {
void asan_arm() {
    for (int s = 0; s < NSLOTS; ++s) { Slot &sl = g_arena.slot[s]; if (!sl.nranges) continue;
        __asan_poison_memory_region(sl.data, SLOT_BYTES);
        for (int r = 0; r < sl.nranges; ++r) __asan_unpoison_memory_region(sl.data + sl.ranges[r].off, sl.ranges[r].len); }
}
void asan_disarm() { for (int s = 0; s < NSLOTS; ++s) if (g_arena.slot[s].nranges) __asan_unpoison_memory_region(g_arena.slot[s].data, SLOT_BYTES); }
#else
void asan_arm() {}
void asan_disarm() {}
#endif

// ================================================================ outcome
const char *Outcome::what() const {
    switch (kind) { case 0: return "ok"; case 1: return "signal"; case 2: return "runtime_error"; case 3: return "bad_alloc"; default: return "exception"; }
}
void Outcome::hash_into(Hash &h) const {
    h.u64((uint64_t)kind); h.u64((uint64_t)allocs);
    if (kind == 1) { h.u64((uint64_t)signo); h.u64((uint64_t)write); h.u64((uint64_t)(int64_t)slot); h.u64((uint64_t)off); }
}
void Outcome::describe(char *buf, size_t n) const {
    if (kind == 1) {
        if (signo == SIGALRM) snprintf(buf, n, "watchdog: the operation did not return within 5 s (SIGALRM)");
        else if (slot >= 0) snprintf(buf, n, "signal %d code %d %s at slot %d offset %ld (data is [0,%d))", signo, code, write ? "WRITE" : "READ", slot, off, (int)SLOT_BYTES);
        else snprintf(buf, n, "signal %d code %d %s outside the arena (si_addr==0: general protection, e.g. aligned access on unaligned address)", signo, code, write ? "WRITE" : "READ");
    } else snprintf(buf, n, "%s allocs=%u", what(), allocs);
}

// ================================================================ signal layer
static void die_line(const char *tag, int signo) {
    char buf[128]; int n = snprintf(buf, sizeof buf, "\nDEATH %llu %s %d\n", (unsigned long long)g_current_run, tag, signo);
    if (n > 0) { ssize_t w = write(1, buf, (size_t)n); (void)w; }
    _exit(3);
}
static void on_signal(int signo, siginfo_t *si, void *ucv) {
    if (!g_win.open) { if (signo == SIGALRM) return; die_line("signal-outside-window", signo); }
    if (signo == SIGALRM) g_watchdog_fired = g_watchdog_fired + 1;
    g_win.open = 0;
    ucontext_t *uc = (ucontext_t *)ucv;
    Outcome &o = g_win.sig; o = Outcome();
    o.signo = signo; o.code = si->si_code;
#if defined(__x86_64__)
    o.write = (signo == SIGSEGV || signo == SIGBUS) ? (int)((uc->uc_mcontext.gregs[REG_ERR] >> 1) & 1) : 0;
#else
    (void)uc;
#endif
    long off = 0; o.slot = (signo == SIGSEGV || signo == SIGBUS) ? g_arena.locate(si->si_addr, off) : -1; o.off = off;
    siglongjmp(g_win.env, 1);
}
static void on_terminate() { die_line("terminate", 0); }
void watchdog(bool on) { alarm(on ? 5u : 0u); }
void install_signal_layer() {
    static uint8_t altstack[1 << 16];
    stack_t ss; ss.ss_sp = altstack; ss.ss_size = sizeof altstack; ss.ss_flags = 0;
    sigaltstack(&ss, nullptr);
    struct sigaction sa; memset(&sa, 0, sizeof sa);
    sa.sa_sigaction = on_signal; sa.sa_flags = SA_SIGINFO | SA_ONSTACK | SA_NODEFER;
    sigemptyset(&sa.sa_mask);
    int sigs[] = {SIGSEGV, SIGBUS, SIGILL, SIGFPE, SIGALRM};
    for (int s : sigs) sigaction(s, &sa, nullptr);
    std::set_terminate(on_terminate);
}
void set_current_run(uint64_t idx) { g_current_run = idx; }

void Verdict::set(int st, const char *k, const char *opname, const char *fmt, ...) {
    if (bad) return;            // first violation of a run wins
    bad = true; step = st; snprintf(klass, sizeof klass, "%s", k); snprintf(op, sizeof op, "%s", opname);
    va_list ap; va_start(ap, fmt); vsnprintf(detail, sizeof detail, fmt, ap); va_end(ap);
}

// ================================================================ plan text
static void print_plan(FILE *f, World &w, const char *prop, const Plan &p) {
    fprintf(f, "fsim-plan 1\nsim %s\nprop %s\nhdr", w.sim_name, prop);
    for (uint32_t v : p.hdr) fprintf(f, " %u", v);
    fprintf(f, "\n");
    for (const Step &s : p.steps) {
        fprintf(f, "step %s", w.op_name(s.op));
        for (uint32_t v : s.a) fprintf(f, " %u", v);
        fprintf(f, "\n");
    }
    fprintf(f, "end\n");
}
static bool read_plan(FILE *f, World &w, Plan &p, std::string &prop) {
    char line[4096]; p = Plan(); bool got = false;
    std::map<std::string, uint32_t> idx;
    for (uint32_t i = 0; i < w.n_ops(); ++i) idx[w.op_name(i)] = i;
    while (fgets(line, sizeof line, f)) {
        char *tok = strtok(line, " \t\r\n"); if (!tok) continue;
        if (!strcmp(tok, "fsim-plan")) { got = true; continue; }
        if (!strcmp(tok, "sim")) { char *n = strtok(nullptr, " \t\r\n"); if (!n || strcmp(n, w.sim_name)) { fprintf(stderr, "plan is for simulator %s, this is %s\n", n ? n : "?", w.sim_name); return false; } continue; }
        if (!strcmp(tok, "prop")) { char *n = strtok(nullptr, " \t\r\n"); if (n) prop = n; continue; }
        if (!strcmp(tok, "hdr")) { for (int i = 0; i < NHDR; ++i) { char *n = strtok(nullptr, " \t\r\n"); if (!n) break; p.hdr[i] = (uint32_t)strtoul(n, nullptr, 10); } continue; }
        if (!strcmp(tok, "step")) {
            char *n = strtok(nullptr, " \t\r\n"); if (!n) return false;
            auto it = idx.find(n); if (it == idx.end()) { fprintf(stderr, "unknown op %s in plan (catalogue changed?)\n", n); return false; }
            Step s; s.op = it->second;
            for (int i = 0; i < NARGS; ++i) { char *v = strtok(nullptr, " \t\r\n"); if (!v) break; s.a[i] = (uint32_t)strtoul(v, nullptr, 10); }
            p.steps.push_back(s); continue;
        }
        if (!strcmp(tok, "end")) break;
    }
    return got;
}

// ================================================================ fork-isolated evaluation (shrinker, gate)
struct EvalOut { int status; char klass[96]; uint64_t hash; };   // status 0 ok, 1 violation, 2 died
static EvalOut eval_forked(World &w, const char *prop, const Plan &p) {
    int fd[2]; EvalOut out; memset(&out, 0, sizeof out); out.status = 2;
    if (pipe(fd) != 0) return out;
    fflush(stdout); fflush(stderr);
    pid_t pid = fork();
    if (pid == 0) {
        close(fd[0]);
        RunResult r = w.exec_plan(prop, p, nullptr, nullptr);
        EvalOut o; memset(&o, 0, sizeof o); o.status = r.v.bad ? 1 : 0; o.hash = r.hash;
        snprintf(o.klass, sizeof o.klass, "%s", r.v.klass);
        ssize_t wr = write(fd[1], &o, sizeof o); (void)wr;
        _exit(0);
    }
    close(fd[1]);
    ssize_t n = read(fd[0], &out, sizeof out); close(fd[0]);
    int st = 0; waitpid(pid, &st, 0);
    if (n != (ssize_t)sizeof out) { memset(&out, 0, sizeof out); out.status = 2; snprintf(out.klass, sizeof out.klass, "worker-death"); }
    return out;
}

static int shrink(World &w, const char *prop, Plan &p, const char *klass, int budget) {
    int evals = 0;
    // wall-clock cap for pathological cases only (every candidate of a hanging operation costs a watchdog period);
    // it limits how far a plan is minimised, never what is reported
    struct timespec t0; clock_gettime(CLOCK_MONOTONIC, &t0);
    auto still = [&](const Plan &c) { if (evals >= budget) return false;
        struct timespec t1; clock_gettime(CLOCK_MONOTONIC, &t1); if (t1.tv_sec - t0.tv_sec > 90) return false;
        ++evals; EvalOut e = eval_forked(w, prop, c); return e.status != 0 && !strcmp(e.klass, klass); };
    // ddmin over steps
    size_t n = 2;
    while (p.steps.size() >= 2 && evals < budget) {
        size_t len = p.steps.size(), chunk = (len + n - 1) / n; bool reduced = false;
        for (size_t start = 0; start < len; start += chunk) {
            Plan c = p; c.steps.erase(c.steps.begin() + (long)start, c.steps.begin() + (long)std::min(len, start + chunk));
            if (!c.steps.empty() && still(c)) { p = c; n = n > 2 ? n - 1 : 2; reduced = true; break; }
        }
        if (!reduced) { if (n >= len) break; n = std::min(len, n * 2); }
    }
    // header and per-step argument simplification towards 0
    auto lower = [&](uint32_t &field, Plan &work) {
        uint32_t orig = field; if (orig == 0) return;
        uint32_t cands[3] = {0, orig / 2, orig - 1};
        for (uint32_t cv : cands) { if (cv >= orig) continue; field = cv; if (still(work)) return; }
        field = orig;
    };
    for (int round = 0; round < 2; ++round) {
        for (int i = 0; i < NHDR; ++i) { Plan c = p; lower(c.hdr[i], c); p = c; }
        for (size_t s = 0; s < p.steps.size(); ++s)
            for (int i = 0; i < NARGS; ++i) { if (!w.arg_shrinkable((uint32_t)i)) continue; Plan c = p; lower(c.steps[s].a[i], c); p = c; }
    }
    return evals;
}

// ================================================================ main
static void dump_counters(const Counters &c) {
    for (auto &kv : c.c) printf("C %s %llu\n", kv.first.c_str(), (unsigned long long)kv.second);
    for (uint64_t s : c.sig_all) printf("S %016llx\n", (unsigned long long)s);
    for (uint64_t s : c.sig_nontrivial) printf("N %016llx\n", (unsigned long long)s);
    for (uint64_t s : c.seq3) printf("Q %016llx\n", (unsigned long long)s);
}

int fsim_main(int argc, char **argv) {
    setvbuf(stdout, nullptr, _IOFBF, 1 << 16);
    World *wp = make_world(); World &w = *wp;
    g_arena.init(); install_signal_layer();
    if (argc < 2) { fprintf(stderr, "usage: %s --list | --plan | --run | --exec | --shrink\n", argv[0]); return 2; }
    std::string cmd = argv[1];
    if (cmd == "--list") { for (uint32_t i = 0; i < w.n_ops(); ++i) printf("%s\n", w.op_name(i)); return 0; }
    if (cmd == "--sweep-size" && argc >= 3) { printf("%llu\n", (unsigned long long)w.sweep_size(argv[2])); return 0; }
    if (cmd == "--plan" && argc >= 6) {
        Plan p; w.gen_plan(argv[2], atoi(argv[3]), strtoull(argv[4], 0, 10), strtoull(argv[5], 0, 10), p);
        print_plan(stdout, w, argv[2], p); return 0;
    }
    if (cmd == "--run" && argc >= 8) {
        const char *prop = argv[2]; int mode = atoi(argv[3]);
        uint64_t seed = strtoull(argv[4], 0, 10), start = strtoull(argv[5], 0, 10), count = strtoull(argv[6], 0, 10), stride = strtoull(argv[7], 0, 10);
        bool runlines = getenv("FSIM_RUNLINES") != nullptr; bool announce = getenv("FSIM_ANNOUNCE") != nullptr;
        int samples_wanted = getenv("FSIM_SAMPLES") ? atoi(getenv("FSIM_SAMPLES")) : 0;
        Counters cnt; uint64_t agg = 0, nviol = 0, steps = 0, runs = 0;
        for (uint64_t k = 0; k < count; ++k) {
            uint64_t idx = start + k * stride;
            set_current_run(idx);
            if (announce) { printf("B %llu\n", (unsigned long long)idx); fflush(stdout); }
            Plan p; w.gen_plan(prop, mode, seed, idx, p);
            RunResult r = w.exec_plan(prop, p, &cnt, nullptr);
            ++runs; steps += r.steps; agg ^= mix2(idx, r.hash);
            if (runlines) printf("R %llu %016llx %u\n", (unsigned long long)idx, (unsigned long long)r.hash, r.steps);
            if (samples_wanted > 0 && !r.v.bad) { --samples_wanted; printf("SAMPLE-BEGIN %llu\n", (unsigned long long)idx); print_plan(stdout, w, prop, p); printf("SAMPLE-END\n"); }
            if (g_watchdog_fired >= 3) { cnt.bump("anomaly/worker-stopped-after-3-watchdog-timeouts (operations hang on this tree)"); k = count; }
            if (r.v.bad) {
                ++nviol;
                if (nviol <= 40) {
                    printf("V %llu %d %s %s | %s\n", (unsigned long long)idx, r.v.step, r.v.klass, r.v.op, r.v.detail);
                    printf("PLAN-BEGIN\n"); print_plan(stdout, w, prop, p); printf("PLAN-END\n"); fflush(stdout);
                }
            }
        }
        printf("T runs %llu steps %llu violations %llu agg %016llx\n", (unsigned long long)runs, (unsigned long long)steps, (unsigned long long)nviol, (unsigned long long)agg);
        dump_counters(cnt);
        printf("DONE\n"); fflush(stdout);
        return 0;
    }
    if ((cmd == "--exec" || cmd == "--shrink") && argc >= 3) {
        FILE *f = fopen(argv[2], "r"); if (!f) { perror(argv[2]); return 2; }
        Plan p; std::string prop; if (!read_plan(f, w, p, prop)) { fprintf(stderr, "cannot parse plan %s\n", argv[2]); return 2; } fclose(f);
        if (cmd == "--exec") {
            bool log = argc >= 4 && !strcmp(argv[3], "--log");
            set_current_run(0);
            RunResult r = w.exec_plan(prop.c_str(), p, nullptr, log ? stdout : nullptr);
            if (r.v.bad) { printf("V 0 %d %s %s | %s\n", r.v.step, r.v.klass, r.v.op, r.v.detail); printf("HASH %016llx\n", (unsigned long long)r.hash); fflush(stdout); return 1; }
            printf("OK\nHASH %016llx\n", (unsigned long long)r.hash); fflush(stdout); return 0;
        }
        // shrink: out file argv[3]; budget argv[4]
        if (argc < 4) return 2;
        int budget = argc >= 5 ? atoi(argv[4]) : 600;
        EvalOut e0 = eval_forked(w, prop.c_str(), p);
        if (e0.status == 0) { printf("SHRINK not-failing\n"); return 3; }
        size_t before = p.steps.size();
        int evals = shrink(w, prop.c_str(), p, e0.klass, budget);
        // determinism gate: the minimised plan twice more, hashes must agree
        EvalOut e1 = eval_forked(w, prop.c_str(), p), e2 = eval_forked(w, prop.c_str(), p);
        bool det = e1.status == e2.status && e1.hash == e2.hash && !strcmp(e1.klass, e2.klass) && e1.status != 0 && !strcmp(e1.klass, e0.klass);
        FILE *o = fopen(argv[3], "w"); if (!o) { perror(argv[3]); return 2; }
        print_plan(o, w, prop.c_str(), p); fclose(o);
        printf("SHRINK class %s steps %zu -> %zu evals %d deterministic %d hash %016llx\n", e0.klass, before, p.steps.size(), evals, det ? 1 : 0, (unsigned long long)e1.hash);
        return det ? 0 : 4;
    }
    fprintf(stderr, "bad arguments\n"); return 2;
}

} // namespace fsim

// ================================================================ allocator interposer
// The whole operator new family is replaced and the C allocation entry points are wrapped
// (-Wl,--wrap): a header-only library's calls originate in this binary's own objects.
extern "C" {
void *__real_malloc(size_t); void *__real_calloc(size_t, size_t); void *__real_realloc(void *, size_t);
void *__real_aligned_alloc(size_t, size_t); int __real_posix_memalign(void **, size_t, size_t); void *__real_memalign(size_t, size_t);
static inline bool fsim_note_alloc() {
    if (fsim::g_win.open) { fsim::g_win.allocs = fsim::g_win.allocs + 1; return fsim::g_win.fail_alloc != 0; }
    return false;
}
void *__wrap_malloc(size_t n) { if (fsim_note_alloc()) return nullptr; return __real_malloc(n); }
void *__wrap_calloc(size_t a, size_t b) { if (fsim_note_alloc()) return nullptr; return __real_calloc(a, b); }
void *__wrap_realloc(void *p, size_t n) { if (fsim_note_alloc()) return nullptr; return __real_realloc(p, n); }
void *__wrap_aligned_alloc(size_t a, size_t n) { if (fsim_note_alloc()) return nullptr; return __real_aligned_alloc(a, n); }
void *__wrap_memalign(size_t a, size_t n) { if (fsim_note_alloc()) return nullptr; return __real_memalign(a, n); }
int __wrap_posix_memalign(void **p, size_t a, size_t n) { if (fsim_note_alloc()) return ENOMEM; return __real_posix_memalign(p, a, n); }
}
static void *fsim_new(size_t n, bool nothrow) {
    if (fsim_note_alloc()) { if (nothrow) return nullptr; throw std::bad_alloc(); }
    void *p = __real_malloc(n ? n : 1);
    if (!p) { if (nothrow) return nullptr; throw std::bad_alloc(); }
    return p;
}
static void *fsim_new_al(size_t n, size_t al, bool nothrow) {
    if (fsim_note_alloc()) { if (nothrow) return nullptr; throw std::bad_alloc(); }
    void *p = nullptr; if (al < sizeof(void *)) al = sizeof(void *);
    if (__real_posix_memalign(&p, al, n ? n : 1) != 0) { if (nothrow) return nullptr; throw std::bad_alloc(); }
    return p;
}
void *operator new(size_t n) { return fsim_new(n, false); }
void *operator new[](size_t n) { return fsim_new(n, false); }
void *operator new(size_t n, const std::nothrow_t &) noexcept { return fsim_new(n, true); }
void *operator new[](size_t n, const std::nothrow_t &) noexcept { return fsim_new(n, true); }
void operator delete(void *p) noexcept { free(p); }
void operator delete[](void *p) noexcept { free(p); }
void operator delete(void *p, size_t) noexcept { free(p); }
void operator delete[](void *p, size_t) noexcept { free(p); }
void operator delete(void *p, const std::nothrow_t &) noexcept { free(p); }
void operator delete[](void *p, const std::nothrow_t &) noexcept { free(p); }
#if __cplusplus >= 201703L
void *operator new(size_t n, std::align_val_t a) { return fsim_new_al(n, (size_t)a, false); }
void *operator new[](size_t n, std::align_val_t a) { return fsim_new_al(n, (size_t)a, false); }
void *operator new(size_t n, std::align_val_t a, const std::nothrow_t &) noexcept { return fsim_new_al(n, (size_t)a, true); }
void *operator new[](size_t n, std::align_val_t a, const std::nothrow_t &) noexcept { return fsim_new_al(n, (size_t)a, true); }
void operator delete(void *p, std::align_val_t) noexcept { free(p); }
void operator delete[](void *p, std::align_val_t) noexcept { free(p); }
void operator delete(void *p, size_t, std::align_val_t) noexcept { free(p); }
void operator delete[](void *p, size_t, std::align_val_t) noexcept { free(p); }
#endif

int main(int argc, char **argv) { return fsim::fsim_main(argc, argv); }
