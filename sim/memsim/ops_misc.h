// memsim: exempt allocators (reverse probe of the allocation audit) and the bad-index fault.
#ifndef MEMSIM_OPS_MISC_H
#define MEMSIM_OPS_MISC_H
#include "memsim.h"
#include <sstream>

namespace memsim {
using namespace Fastor;

template <class T, size_t... D> void op_tovector(Ctx &c) {
    auto &a = c.own<Tensor<T, D...>>(0, false);
    T r = 0;
    c.run([&] { std::vector<T> v = a.tovector(); r = v[0]; });
    c.retv(r);
}
template <class T, size_t... D> void op_print(Ctx &c) {
    auto &a = c.own<Tensor<T, D...>>(0, false);
    size_t n = 0;
    c.run([&] { std::ostringstream os; os << a; n = os.str().size(); });
    c.retv(n);
}

#if FASTOR_BOUNDS_CHECK
// a buggy client hands scalar indexing a coordinate outside [-dim, dim-1]; the library promises an error
template <class T, size_t M, size_t N> void op_badindex2(Ctx &c) {
    auto &a = c.own<Tensor<T, M, N>>(0, true);
    int i = (int)(c.p1() % M), j = (int)(c.p2() % N);
    int over = 1 + (int)((c.p3() >> 4) % 3);
    switch (c.p3() % 4) { case 0: i = (int)M + over - 1; break; case 1: j = (int)N + over - 1; break; case 2: i = -(int)M - over; break; default: j = -(int)N - over; }
    uint32_t w = (c.p3() >> 8) % 3;
    T r = 0; const auto &ca = a;
    c.run([&] { if (w == 1) a(i, j) = (T)1; else if (w == 2) r = ca(i, j); else r = a(i, j); });
    c.retv(r);
}
template <class T, size_t N> void op_badindex1(Ctx &c) {
    auto &a = c.own<Tensor<T, N>>(0, true);
    int over = 1 + (int)((c.p3() >> 4) % 3);
    int i = (c.p3() & 1) ? (int)N + over - 1 : -(int)N - over;
    uint32_t w = (c.p3() >> 8) % 3;
    T r = 0; const auto &ca = a;
    c.run([&] { if (w == 1) a(i) = (T)1; else if (w == 2) r = ca(i); else r = a(i); });
    c.retv(r);
}
template <class T, size_t M, size_t N, size_t P> void op_badindex3(Ctx &c) {
    auto &a = c.own<Tensor<T, M, N, P>>(0, true);
    int i = (int)(c.p1() % M), j = (int)(c.p2() % N), k = (int)((c.p1() >> 8) % P);
    int over = 1 + (int)((c.p3() >> 4) % 3);
    switch (c.p3() % 6) { case 0: i = (int)M + over - 1; break; case 1: j = (int)N + over - 1; break; case 2: k = (int)P + over - 1; break;
        case 3: i = -(int)M - over; break; case 4: j = -(int)N - over; break; default: k = -(int)P - over; }
    uint32_t w = (c.p3() >> 8) % 3;
    T r = 0; const auto &ca = a;
    c.run([&] { if (w == 1) a(i, j, k) = (T)1; else if (w == 2) r = ca(i, j, k); else r = a(i, j, k); });
    c.retv(r);
}
template <class T, size_t M, size_t N, size_t P, size_t Q> void op_badindex4(Ctx &c) {
    auto &a = c.own<Tensor<T, M, N, P, Q>>(0, true);
    const int d[4] = {(int)M, (int)N, (int)P, (int)Q}; int ix[4];
    for (int k = 0; k < 4; ++k) ix[k] = (int)(mix2(c.p1(), (uint64_t)k) % (uint64_t)d[k]);
    int over = 1 + (int)((c.p3() >> 4) % 3), ax = (int)(c.p3() % 4);
    ix[ax] = (c.p2() & 1) ? d[ax] + over - 1 : -d[ax] - over;
    uint32_t w = (c.p3() >> 8) % 2;
    T r = 0;
    const auto &ca = a;
    c.run([&] { if (w) a(ix[0], ix[1], ix[2], ix[3]) = (T)1; else if (c.p2() & 2) r = ca(ix[0], ix[1], ix[2], ix[3]); else r = a(ix[0], ix[1], ix[2], ix[3]); });
    c.retv(r);
}
template <class T, size_t M, size_t N, size_t P> void op_badindex_map3(Ctx &c) {
    TensorMap<T, M, N, P> a(c.buf<T>(0, M * N * P, true));
    const int d[3] = {(int)M, (int)N, (int)P}; int ix[3];
    for (int k = 0; k < 3; ++k) ix[k] = (int)(mix2(c.p1(), (uint64_t)k) % (uint64_t)d[k]);
    int over = 1 + (int)((c.p3() >> 4) % 3), ax = (int)(c.p3() % 3);
    ix[ax] = (c.p2() & 1) ? d[ax] + over - 1 : -d[ax] - over;
    uint32_t w = (c.p3() >> 8) % 2;
    T r = 0;
    const auto &ca = a;
    c.run([&] { if (w) a(ix[0], ix[1], ix[2]) = (T)1; else if (c.p2() & 2) r = ca(ix[0], ix[1], ix[2]); else r = a(ix[0], ix[1], ix[2]); });
    c.retv(r);
}
// the same through a map over an exact-extent buffer
template <class T, size_t M, size_t N> void op_badindex_map(Ctx &c) {
    TensorMap<T, M, N> a(c.buf<T>(0, M * N, true));
    int i = (int)(c.p1() % M), j = (int)(c.p2() % N);
    int over = 1 + (int)((c.p3() >> 4) % 3);
    switch (c.p3() % 4) { case 0: i = (int)M + over - 1; break; case 1: j = (int)N + over - 1; break; case 2: i = -(int)M - over; break; default: j = -(int)N - over; }
    uint32_t w = (c.p3() >> 8) % 3;
    T r = 0; const auto &ca = a;
    c.run([&] { if (w == 1) a(i, j) = (T)1; else if (w == 2) r = ca(i, j); else r = a(i, j); });
    c.retv(r);
}
#endif

} // namespace memsim
#endif
