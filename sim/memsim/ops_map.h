// memsim operand kind (a): TensorMap over exact-extent external buffers (no padding at all),
// at every misalignment, flush against guard pages.
#ifndef MEMSIM_OPS_MAP_H
#define MEMSIM_OPS_MAP_H
#include "memsim.h"

namespace memsim {
using namespace Fastor;

template <size_t... D> struct prod_;
template <> struct prod_<> { static constexpr size_t value = 1; };
template <size_t A, size_t... D> struct prod_<A, D...> { static constexpr size_t value = A * prod_<D...>::value; };

template <class T, size_t... D> TensorMap<T, D...> mkmap(Ctx &c, int k, bool out) { return TensorMap<T, D...>(c.buf<T>(k, prod_<D...>::value, out)); }

// ---- element-wise expression assignment and compound assignment
template <class T, size_t... D> void op_map_expr(Ctx &c) {
    auto a = mkmap<T, D...>(c, 0, false), b = mkmap<T, D...>(c, 1, false), o = mkmap<T, D...>(c, 2, true);
    c.run([&] { o = a + b * a - b; });
}
template <class T, size_t... D> void op_map_compound(Ctx &c) {
    auto a = mkmap<T, D...>(c, 0, false), b = mkmap<T, D...>(c, 1, false), o = mkmap<T, D...>(c, 2, true);
    c.run([&] { o += a; o -= b; o *= a; o /= b; });
}
template <class T, size_t... D> void op_map_compound_expr(Ctx &c) {
    auto a = mkmap<T, D...>(c, 0, false), b = mkmap<T, D...>(c, 1, false), o = mkmap<T, D...>(c, 2, true);
    c.run([&] { o += a * b; o -= a + b; o *= a - b + (T)20; });
}
template <class T, size_t... D> void op_map_scalar(Ctx &c) {
    auto a = mkmap<T, D...>(c, 0, false), o = mkmap<T, D...>(c, 1, true);
    c.run([&] { o = a * (T)2; o += (T)1; o -= (T)3; o *= (T)2; o /= (T)2; });
}
// complex element types: no scalar compound operators (they do not compile for complex maps)
template <class T, size_t... D> void op_map_cx(Ctx &c) {
    auto a = mkmap<T, D...>(c, 0, false), b = mkmap<T, D...>(c, 1, false), o = mkmap<T, D...>(c, 2, true);
    uint32_t w = c.p1() % 4;
    typename T::value_type r = 0;
    c.run([&] {
        switch (w) {
        case 0: o = a + b * a - b; break;
        case 1: o += a; o -= b; o *= a; o /= b; break;
        case 2: { o = a * (T)2; Tensor<T, D...> t(a); t += b; o = t; } break;
        default: { T s = a.sum(); r = s.real() + s.imag(); o = a - b; }
        }
    });
    c.retv(r);
}
template <class T, size_t... D> void op_map_methods(Ctx &c) {
    auto o = mkmap<T, D...>(c, 0, true);
    uint32_t w = c.p1() % 5;
    c.run([&] { switch (w) { case 0: o.fill((T)3); break; case 1: o.iota((T)1); break; case 2: o.zeros(); break; case 3: o.ones(); break; default: o.reverse(); } });
}
template <class T, size_t... D> void op_map_reduce(Ctx &c) {
    auto a = mkmap<T, D...>(c, 0, false);
    T r[3] = {0, 0, 0};
    c.run([&] { r[0] = a.sum(); r[1] = sum(a); r[2] = a.product(); });
    c.retb(r, sizeof r);
}
template <class T, size_t... D> void op_map_reduce_np(Ctx &c) {     // without product() (no int product under AVX2)
    auto a = mkmap<T, D...>(c, 0, false);
    T r[2] = {0, 0};
    c.run([&] { r[0] = a.sum(); r[1] = sum(a + a); });
    c.retb(r, sizeof r);
}
template <class T, size_t... D> void op_map_math(Ctx &c) {
    auto a = mkmap<T, D...>(c, 0, false), o = mkmap<T, D...>(c, 1, true);
    c.run([&] { o = sqrt(abs(a)) + a * a; });
}
template <class T, size_t... D> void op_map_to_tensor(Ctx &c) {
    auto a = mkmap<T, D...>(c, 0, false), o = mkmap<T, D...>(c, 1, true);
    c.run([&] { Tensor<T, D...> t(a); t += a; o = t; });
}
template <class T, class U, size_t... D> void op_map_cast(Ctx &c) {
    auto a = mkmap<T, D...>(c, 0, false); auto o = mkmap<U, D...>(c, 1, true);
    c.run([&] { o = a.template cast<U>(); });
}
template <class T, size_t N> void op_map_inner_norm(Ctx &c) {
    auto a = mkmap<T, N>(c, 0, false), b = mkmap<T, N>(c, 1, false);
    T r[2] = {0, 0};
    c.run([&] { r[0] = inner(a, b); r[1] = norm(a); });
    c.retb(r, sizeof r);
}
template <class T, size_t... D> void op_map_cmp(Ctx &c) {
    auto a = mkmap<T, D...>(c, 0, false), b = mkmap<T, D...>(c, 1, false);
    bool r[2] = {false, false};
    c.run([&] { r[0] = all_of(a == a); r[1] = any_of(a < b); });
    c.retb(r, sizeof r);
}

// ---- rank-2 maps: products, transposition, views
template <class T, size_t M, size_t K, size_t N> void op_map_matmul(Ctx &c) {
    auto a = mkmap<T, M, K>(c, 0, false); auto b = mkmap<T, K, N>(c, 1, false); auto o = mkmap<T, M, N>(c, 2, true);
    c.run([&] { o = matmul(a, b); });
}
template <class T, size_t M, size_t K, size_t N> void op_map_lazy_matmul(Ctx &c) {
    auto a = mkmap<T, M, K>(c, 0, false); auto b = mkmap<T, K, N>(c, 1, false); auto o = mkmap<T, M, N>(c, 2, true);
    c.run([&] { Tensor<T, M, N> t = a % b; t += a % b; o = t; });   // map = a % b does not compile (no dispatcher for a TensorMap destination)
}
template <class T, size_t M, size_t N> void op_map_transpose(Ctx &c) {
    auto a = mkmap<T, M, N>(c, 0, false); auto o = mkmap<T, N, M>(c, 1, true);
    c.run([&] { o = transpose(a); o += trans(a); });
}
// fixed views of a rank-2 map: first row, last column, leading block, strided rows
template <class T, size_t M, size_t N> void op_map2_fixed_views(Ctx &c) {
    auto a = mkmap<T, M, N>(c, 0, false); auto o = mkmap<T, M, N>(c, 1, true);
    uint32_t w = c.p1() % 4;
    c.run([&] {
        switch (w) {
        case 0: o(fseq<0, 1>(), fall) = a(fseq<M - 1, M>(), fall); break;
        case 1: o(fall, fseq<N - 1, N>()) += a(fall, fseq<0, 1>()); break;
        case 2: o(fseq<0, (M + 1) / 2>(), fseq<0, (N + 1) / 2>()) = (T)4; break;
        default: o(fseq<0, M, 2>(), fall) -= a(fseq<0, M, 2>(), fall); break;
        }
    });
}
// dynamic views of a rank-2 map: scalar right-hand sides, and reading a view into an owning tensor
template <class T, size_t M, size_t N> void op_map2_dyn_views(Ctx &c) {
    auto a = mkmap<T, M, N>(c, 0, false); auto o = mkmap<T, M, N>(c, 1, true);
    int f0 = (int)(c.p1() % M), l0 = f0 + 1 + (int)(c.p2() % (M - f0)), s0 = 1 + (int)((c.p1() >> 8) % 2);
    int f1 = (int)(c.p3() % N), l1 = f1 + 1 + (int)((c.p3() >> 8) % (N - f1)), s1 = 1 + (int)((c.p2() >> 8) % 2);
    uint32_t w = (c.p1() >> 16) % 3;
    T r = 0;
    c.run([&] {
        switch (w) {
        case 0: o(seq(f0, l0, s0), seq(f1, l1, s1)) = (T)2; break;
        case 1: o(seq(f0, l0, s0), seq(f1, l1, s1)) += (T)2; break;
        default: { Tensor<T, M, N> t; t.fill((T)1); t(seq(f0, l0, s0), seq(f1, l1, s1)) = a(seq(f0, l0, s0), seq(f1, l1, s1)); r = t.sum(); }
        }
    });
    c.retv(r);
}
// rank-3 maps: tensor-valued dynamic view writes (compile for rank >= 3), fixed views
template <class T, size_t M, size_t N, size_t P> void op_map3_views(Ctx &c) {
    auto a = mkmap<T, M, N, P>(c, 0, false); auto o = mkmap<T, M, N, P>(c, 1, true);
    int f0 = (int)(c.p1() % M), l0 = f0 + 1 + (int)(c.p2() % (M - f0));
    int f1 = (int)(c.p3() % N), l1 = f1 + 1 + (int)((c.p3() >> 8) % (N - f1));
    int f2 = (int)((c.p1() >> 8) % P), l2 = f2 + 1 + (int)((c.p2() >> 8) % (P - f2));
    uint32_t w = (c.p1() >> 16) % 4;
    c.run([&] {
        switch (w) {
        case 0: o(seq(f0, l0), seq(f1, l1), seq(f2, l2)) = a(seq(f0, l0), seq(f1, l1), seq(f2, l2)) * (T)1; break;   // view = view does not compile for maps
        case 1: o(seq(f0, l0), seq(f1, l1), seq(f2, l2)) += (T)3; break;
        case 2: o(fseq<0, 1>(), fall, fall) = a(fseq<M - 1, M>(), fall, fall); break;
        default: o(fall, fall, fseq<P - 1, P>()) *= a(fall, fall, fseq<0, 1>()); break;
        }
    });
}
// diag(TensorMap&) does not compile on the pinned tree (tensor_diag_views.h:311 binds a temporary): excluded
template <class T, size_t M, size_t N> void op_map_colmajor(Ctx &c) {
    auto a = mkmap<T, M, N>(c, 0, false); auto o = mkmap<T, M, N>(c, 1, true);
    c.run([&] { Tensor<T, M, N> t = tocolumnmajor(a); o = torowmajor(t); });
}
// reshape / flatten of a map-backed tensor is itself a map over the same exact-extent storage
template <class T, size_t M, size_t N> void op_map_ctor_ptr(Ctx &c) {
    const T *p = c.buf<T>(0, M * N, false); auto o = mkmap<T, M, N>(c, 1, true);
    uint32_t w = c.p1() % 2;
    c.run([&] { Tensor<T, M, N> t(p, w ? ColumnMajor : RowMajor); o = t; });
}

} // namespace memsim
#endif
