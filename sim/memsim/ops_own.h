// memsim operand kind (c): owning tensors placement-constructed so that the OBJECT
// (sizeof, including the library's own alignment padding) is flush against the guard page;
// kind (b): raw back-end kernels under the storage contract their in-library callers give them.
#ifndef MEMSIM_OPS_OWN_H
#define MEMSIM_OPS_OWN_H
#include "memsim.h"
#include "ops_map.h"

namespace memsim {
using namespace Fastor;

// ---- products
template <class T, size_t M, size_t K, size_t N> void op_matmul(Ctx &c) {
    auto &a = c.own<Tensor<T, M, K>>(0, false); auto &b = c.own<Tensor<T, K, N>>(1, false); auto &o = c.own<Tensor<T, M, N>>(2, true);
    c.run([&] { o = matmul(a, b); });
}
template <class T, size_t M, size_t K, size_t N> void op_lazy_matmul(Ctx &c) {
    auto &a = c.own<Tensor<T, M, K>>(0, false); auto &b = c.own<Tensor<T, K, N>>(1, false); auto &o = c.own<Tensor<T, M, N>>(2, true);
    c.run([&] { o = a % b; o += a % b; o -= (a + a) % b; });
}
template <class T, size_t M, size_t K> void op_matvec(Ctx &c) {
    auto &a = c.own<Tensor<T, M, K>>(0, false); auto &x = c.own<Tensor<T, K>>(1, false); auto &y = c.own<Tensor<T, M>>(2, true);
    auto &z = c.own<Tensor<T, K>>(3, true); auto &w = c.own<Tensor<T, M>>(4, false);
    c.run([&] { y = matmul(a, x); z = matmul(w, a); });
}
template <class T, size_t M, size_t K, size_t N> void op_tmatmul(Ctx &c) {
    auto &a = c.own<Tensor<T, M, K>>(0, false); auto &b = c.own<Tensor<T, K, N>>(1, false); auto &o = c.own<Tensor<T, M, N>>(2, true);
    uint32_t w = c.p1() % 4;
    c.run([&] {
        switch (w) {
        case 0: o = tmatmul<UpLoType::Lower, UpLoType::General>(a, b); break;
        case 1: o = tmatmul<UpLoType::Upper, UpLoType::General>(a, b); break;
        case 2: o = tmatmul<UpLoType::General, UpLoType::Lower>(a, b); break;
        default: o = tmatmul<UpLoType::General, UpLoType::Upper>(a, b); break;
        }
    });
}
template <class T, size_t M, size_t N> void op_outer_inner(Ctx &c) {
    auto &a = c.own<Tensor<T, M>>(0, false); auto &b = c.own<Tensor<T, N>>(1, false); auto &o = c.own<Tensor<T, M, N>>(2, true);
    auto &a2 = c.own<Tensor<T, M, N>>(3, false);
    T r[2] = {0, 0};
    c.run([&] { o = outer(a, b); r[0] = inner(a2, o); r[1] = inner(a, a); });
    c.retb(r, sizeof r);
}
// ---- einsum / contraction / permutation
template <class T, size_t M, size_t K, size_t N> void op_einsum_mm(Ctx &c) {
    auto &a = c.own<Tensor<T, M, K>>(0, false); auto &b = c.own<Tensor<T, K, N>>(1, false); auto &o = c.own<Tensor<T, M, N>>(2, true);
    enum { i, j, k };
    c.run([&] { o = einsum<Index<i, j>, Index<j, k>>(a, b); });
}
template <class T, size_t M, size_t N, size_t P> void op_einsum_3(Ctx &c) {
    auto &a = c.own<Tensor<T, M, N, P>>(0, false); auto &b = c.own<Tensor<T, P, N>>(1, false); auto &o = c.own<Tensor<T, M>>(2, true);
    auto &o2 = c.own<Tensor<T, M, N, N>>(3, true);
    enum { i, j, k, l };
    c.run([&] { o = einsum<Index<i, j, k>, Index<k, j>>(a, b); o2 = einsum<Index<i, j, k>, Index<k, l>>(a, b); });
}
template <class T, size_t M, size_t N> void op_einsum_outer(Ctx &c) {
    auto &a = c.own<Tensor<T, M, N>>(0, false); auto &b = c.own<Tensor<T, N>>(1, false); auto &o = c.own<Tensor<T, M, N, N>>(2, true);
    auto &o1 = c.own<Tensor<T, M>>(3, true);
    enum { i, j, k };
    c.run([&] { o = einsum<Index<i, j>, Index<k>>(a, b); o1 = einsum<Index<i, j>, Index<j>>(a, b); });
}
template <class T, size_t M, size_t N, size_t P> void op_permute3(Ctx &c) {
    auto &a = c.own<Tensor<T, M, N, P>>(0, false); auto &o = c.own<Tensor<T, P, M, N>>(1, true); auto &o2 = c.own<Tensor<T, N, M, P>>(2, true);
    enum { i, j, k };
    c.run([&] { o = permute<Index<k, i, j>>(a); o2 = permutation<Index<j, i, k>>(a); });
}
template <class T, size_t M, size_t N> void op_transpose(Ctx &c) {
    auto &a = c.own<Tensor<T, M, N>>(0, false); auto &o = c.own<Tensor<T, N, M>>(1, true);
    c.run([&] { o = transpose(a); o += trans(a); });
}
// ---- dense linear algebra (floating point only)
template <class T, size_t N> void op_inverse(Ctx &c) {
    auto &a = c.own_dd<Tensor<T, N, N>>(0, false); auto &o = c.own<Tensor<T, N, N>>(1, true); auto &o2 = c.own<Tensor<T, N, N>>(2, true);
    T r[2] = {0, 0};
    c.run([&] { o = inverse(a); o2 = inv(a); r[0] = determinant(a); r[1] = det(a + a); });
    c.retb(r, sizeof r);
}
template <class T, size_t N> void op_inverse_strategies(Ctx &c) {
    auto &a = c.own_dd<Tensor<T, N, N>>(0, false); auto &o = c.own<Tensor<T, N, N>>(1, true); auto &o2 = c.own<Tensor<T, N, N>>(2, true);
    c.run([&] { o = inverse<InvCompType::SimpleInvPiv>(a); o2 = inverse<InvCompType::BlockLUPiv>(a); });
}
template <class T, size_t N> void op_lu(Ctx &c) {
    auto &a = c.own_dd<Tensor<T, N, N>>(0, false); auto &l = c.own<Tensor<T, N, N>>(1, true); auto &u = c.own<Tensor<T, N, N>>(2, true);
    auto &p = c.own<Tensor<size_t, N>>(3, true);
    uint32_t w = c.p1() % 4;
    c.run([&] {
        switch (w) {
        case 0: lu(a, l, u); break;
        case 1: lu<LUCompType::BlockLUPiv>(a, l, u, p); break;
        case 2: lu<LUCompType::SimpleLU>(a, l, u); break;
        default: lu<LUCompType::SimpleLUPiv>(a, l, u, p); break;
        }
    });
}
template <class T, size_t N> void op_qr(Ctx &c) {
    auto &a = c.own_dd<Tensor<T, N, N>>(0, false); auto &q = c.own<Tensor<T, N, N>>(1, true); auto &r = c.own<Tensor<T, N, N>>(2, true);
    c.run([&] { qr(a, q, r); });
}
template <class T, size_t N, size_t K> void op_solve(Ctx &c) {
    auto &a = c.own_dd<Tensor<T, N, N>>(0, false); auto &b = c.own<Tensor<T, N>>(1, false); auto &x = c.own<Tensor<T, N>>(2, true);
    auto &B = c.own<Tensor<T, N, K>>(3, false); auto &X = c.own<Tensor<T, N, K>>(4, true);
    c.run([&] { x = solve(a, b); X = solve(a, B); });
}
template <class T, size_t N> void op_trace_norm(Ctx &c) {
    auto &a = c.own<Tensor<T, N, N>>(0, false);
    T r[2] = {0, 0};
    c.run([&] { r[0] = trace(a); r[1] = norm(a); });
    c.retb(r, sizeof r);
}
// ---- element-wise, reductions, methods on owning tensors
template <class T, size_t... D> void op_own_expr(Ctx &c) {
    auto &a = c.own<Tensor<T, D...>>(0, false); auto &b = c.own<Tensor<T, D...>>(1, false); auto &o = c.own<Tensor<T, D...>>(2, true);
    c.run([&] { o = a + b * a - b; o += a; o -= b; o *= a; o /= b; o += a * b; });
}
template <class T, size_t... D> void op_own_math(Ctx &c) {
    auto &a = c.own<Tensor<T, D...>>(0, false); auto &o = c.own<Tensor<T, D...>>(1, true);
    c.run([&] { o = sqrt(abs(a)) + a * a - (T)1 / (abs(a) + (T)1); });
}
template <class T, size_t... D> void op_own_methods(Ctx &c) {
    auto &o = c.own<Tensor<T, D...>>(0, true);
    uint32_t w = c.p1() % 5;
    c.run([&] { switch (w) { case 0: o.fill((T)3); break; case 1: o.iota((T)1); break; case 2: o.zeros(); break; case 3: o.ones(); break; default: o.reverse(); } });
}
template <class T, size_t... D> void op_own_reduce(Ctx &c) {
    auto &a = c.own<Tensor<T, D...>>(0, false); auto &b = c.own<Tensor<T, D...>>(1, false);
    T r[3] = {0, 0, 0}; bool q[2] = {false, false};
    c.run([&] { r[0] = a.sum(); r[1] = sum(a + b); r[2] = norm(a); q[0] = all_of(a == a); q[1] = any_of(a < b); });
    c.retb(r, sizeof r); c.retb(q, sizeof q);
}
template <class T, class U, size_t... D> void op_cast(Ctx &c) {
    auto &a = c.own<Tensor<T, D...>>(0, false); auto &o = c.own<Tensor<U, D...>>(1, true);
    c.run([&] { o = a.template cast<U>(); });
}
template <class T, size_t... D> void op_colmajor(Ctx &c) {
    auto &a = c.own<Tensor<T, D...>>(0, false); auto &o = c.own<Tensor<T, D...>>(1, true); auto &o2 = c.own<Tensor<T, D...>>(2, true);
    c.run([&] { o = tocolumnmajor(a); o2 = torowmajor(o); });
}
template <class T, size_t M, size_t N> void op_reshape(Ctx &c) {
    auto &a = c.own<Tensor<T, M, N>>(0, true); auto &o = c.own<Tensor<T, N, M>>(1, true);
    T r = 0;
    c.run([&] { auto m = reshape<N, M>(a); o = m; auto f = flatten(a); f += (T)1; r = f.sum(); });
    c.retv(r);
}
// ---- views on owning tensors, read and written
template <class T, size_t N> void op_view1_dyn(Ctx &c) {
    auto &a = c.own<Tensor<T, N>>(0, false); auto &o = c.own<Tensor<T, N>>(1, true);
    int f = (int)(c.p1() % N), l = f + 1 + (int)(c.p2() % (N - f)), s = 1 + (int)(c.p3() % 3);
    uint32_t w = (c.p1() >> 16) % 4;
    c.run([&] {
        switch (w) {
        case 0: o(seq(f, l, s)) = a(seq(f, l, s)); break;
        case 1: o(seq(f, l, s)) += (T)2; break;
        case 2: o(seq(f, l, s)) *= a(seq(f, l, s)) + (T)1; break;
        default: o(seq(f, l, s)) = (T)7; break;
        }
    });
}
template <class T, size_t M, size_t N> void op_view2_dyn(Ctx &c) {
    auto &a = c.own<Tensor<T, M, N>>(0, false); auto &o = c.own<Tensor<T, M, N>>(1, true);
    int f0 = (int)(c.p1() % M), l0 = f0 + 1 + (int)(c.p2() % (M - f0)), s0 = 1 + (int)((c.p1() >> 8) % 2);
    int f1 = (int)(c.p3() % N), l1 = f1 + 1 + (int)((c.p3() >> 8) % (N - f1)), s1 = 1 + (int)((c.p2() >> 8) % 2);
    uint32_t w = (c.p1() >> 16) % 4;
    c.run([&] {
        switch (w) {
        case 0: o(seq(f0, l0, s0), seq(f1, l1, s1)) = a(seq(f0, l0, s0), seq(f1, l1, s1)); break;
        case 1: o(seq(f0, l0, s0), seq(f1, l1, s1)) -= (T)2; break;
        case 2: o(seq(f0, l0, s0), seq(f1, l1, s1)) += a(seq(f0, l0, s0), seq(f1, l1, s1)) * (T)2; break;
        default: o(f0, seq(f1, l1, s1)) = a(f0, seq(f1, l1, s1)); break;
        }
    });
}
template <class T, size_t M, size_t N, size_t P> void op_view3_dyn(Ctx &c) {
    auto &a = c.own<Tensor<T, M, N, P>>(0, false); auto &o = c.own<Tensor<T, M, N, P>>(1, true);
    int f0 = (int)(c.p1() % M), l0 = f0 + 1 + (int)(c.p2() % (M - f0));
    int f1 = (int)(c.p3() % N), l1 = f1 + 1 + (int)((c.p3() >> 8) % (N - f1));
    int f2 = (int)((c.p1() >> 8) % P), l2 = f2 + 1 + (int)((c.p2() >> 8) % (P - f2)), s2 = 1 + (int)((c.p2() >> 16) % 2);
    uint32_t w = (c.p1() >> 16) % 3;
    c.run([&] {
        switch (w) {
        case 0: o(seq(f0, l0), seq(f1, l1), seq(f2, l2, s2)) = a(seq(f0, l0), seq(f1, l1), seq(f2, l2, s2)); break;
        case 1: o(seq(f0, l0), seq(f1, l1), seq(f2, l2, s2)) += (T)3; break;
        default: o(seq(f0, l0), seq(f1, l1), seq(f2, l2, s2)) *= a(seq(f0, l0), seq(f1, l1), seq(f2, l2, s2)); break;
        }
    });
}
template <class T, size_t N> void op_view1_fixed(Ctx &c) {
    auto &a = c.own<Tensor<T, N>>(0, false); auto &o = c.own<Tensor<T, N>>(1, true);
    uint32_t w = c.p1() % 4;
    c.run([&] {
        switch (w) {
        case 0: o(fseq<0, (N + 1) / 2>()) = a(fseq<N / 2, N>()); break;
        case 1: o(fseq<N / 2, N>()) += (T)2; break;
        case 2: o(fseq<0, N, 2>()) *= a(fseq<0, N, 2>()); break;
        default: o(fseq<N - 1, N>()) = (T)7; break;
        }
    });
}
template <class T, size_t M, size_t N> void op_view2_fixed(Ctx &c) {
    auto &a = c.own<Tensor<T, M, N>>(0, false); auto &o = c.own<Tensor<T, M, N>>(1, true);
    uint32_t w = c.p1() % 5;
    c.run([&] {
        switch (w) {
        case 0: o(fseq<0, 1>(), fall) = a(fseq<M - 1, M>(), fall); break;
        case 1: o(fall, fseq<N - 1, N>()) += a(fall, fseq<0, 1>()); break;
        case 2: o(fseq<0, (M + 1) / 2>(), fseq<0, (N + 1) / 2>()) = (T)4; break;
        case 3: o(fseq<0, M, 2>(), fall) -= a(fseq<0, M, 2>(), fall); break;
        default: o(fseq<M / 2, M>(), fseq<N / 2, N>()) *= a(fseq<0, M - M / 2>(), fseq<0, N - N / 2>()); break;
        }
    });
}
template <class T, size_t M, size_t N, size_t P> void op_view3_fixed(Ctx &c) {
    auto &a = c.own<Tensor<T, M, N, P>>(0, false); auto &o = c.own<Tensor<T, M, N, P>>(1, true);
    uint32_t w = c.p1() % 3;
    c.run([&] {
        switch (w) {
        case 0: o(fseq<0, 1>(), fall, fall) = a(fseq<M - 1, M>(), fall, fall); break;
        case 1: o(fall, fall, fseq<P - 1, P>()) *= a(fall, fall, fseq<0, 1>()); break;
        default: o(fall, fseq<0, (N + 1) / 2>(), fseq<P / 2, P>()) += (T)1; break;
        }
    });
}
// index-tensor views and boolean masks
template <class T, size_t N, size_t K> void op_view_index(Ctx &c) {
    auto &a = c.own<Tensor<T, N>>(0, false); auto &o = c.own<Tensor<T, N>>(1, true); auto &it = c.own<Tensor<int, K>>(2, false);
    // duplicate-free indices: a stride coprime to N
    int stride = 1; for (int s = 2 + (int)(c.p1() % 5); s < (int)N + 7; ++s) { int x = s, y = (int)N; while (y) { int t = x % y; x = y; y = t; } if (x == 1) { stride = s; break; } }
    for (size_t i = 0; i < K; ++i) it.data()[i] = (int)((c.p2() % N + i * (size_t)stride) % N);
    uint32_t w = c.p3() % 3;
    c.run([&] {
        switch (w) {
        case 0: o(it) = a(it); break;
        case 1: o(it) += (T)2; break;
        default: { Tensor<T, K> t = a(it); o(it) = t * (T)2; }
        }
    });
}
template <class T, size_t... D> void op_view_mask(Ctx &c) {
    auto &a = c.own<Tensor<T, D...>>(0, false); auto &o = c.own<Tensor<T, D...>>(1, true); auto &m = c.own<Tensor<bool, D...>>(2, false);
    for (size_t i = 0; i < (size_t)m.size(); ++i) m.data()[i] = (mix2(c.p1(), i) & 3) != 0;
    uint32_t w = c.p2() % 3;
    c.run([&] {
        switch (w) {
        case 0: o(m) = a; break;
        case 1: o(m) = (T)9; break;
        default: o(m) += a; break;
        }
    });
}
template <class T, size_t N> void op_view_diag(Ctx &c) {
    auto &a = c.own<Tensor<T, N, N>>(0, false); auto &o = c.own<Tensor<T, N, N>>(1, true); auto &d = c.own<Tensor<T, N>>(2, true);
    c.run([&] { diag(o) = (T)5; d = diag(a); diag(o) += d; });
}
// scalar indexing with legal (including negative) indices
template <class T, size_t M, size_t N> void op_scalar_index(Ctx &c) {
    auto &a = c.own<Tensor<T, M, N>>(0, false); auto &o = c.own<Tensor<T, M, N>>(1, true);
    int i = (int)(c.p1() % (2 * M)) - (int)M, j = (int)(c.p2() % (2 * N)) - (int)N;
    T r = 0;
    c.run([&] { o(i, j) = a(i, j); o(i, j) += (T)1; r = a(i, j); });
    c.retv(r);
}
// constructors from external storage
template <class T, size_t M, size_t N> void op_ctor_ptr(Ctx &c) {
    const T *p = c.buf<T>(0, M * N, false); auto &o = c.own<Tensor<T, M, N>>(1, true);
    uint32_t w = c.p1() % 2;
    c.run([&] { Tensor<T, M, N> t(p, w ? ColumnMajor : RowMajor); o = t; });
}
template <class T, size_t M, size_t N> void op_ctor_array(Ctx &c) {
    using A = std::array<T, M * N>;
    A *arr = (A *)c.buf<T>(0, M * N, false); auto &o = c.own<Tensor<T, M, N>>(1, true);
    uint32_t w = c.p1() % 2;
    c.run([&] { Tensor<T, M, N> t(*arr, w ? ColumnMajor : RowMajor); o = t; });
}

// ---- kind (b): raw back-end kernels under the in-library contract (aligned start, extent rounded up to the alignment)
template <class T> constexpr size_t padded(size_t n) { return (n * sizeof(T) + FASTOR_MEMORY_ALIGNMENT_VALUE - 1) / FASTOR_MEMORY_ALIGNMENT_VALUE * FASTOR_MEMORY_ALIGNMENT_VALUE / sizeof(T); }
template <class T, size_t M, size_t K, size_t N> void op_raw_matmul(Ctx &c) {
    const T *a = c.buf<T>(0, padded<T>(M * K), false, FASTOR_MEMORY_ALIGNMENT_VALUE, false);
    const T *b = c.buf<T>(1, padded<T>(K * N), false, FASTOR_MEMORY_ALIGNMENT_VALUE, false);
    T *o = c.buf<T>(2, padded<T>(M * N), true, FASTOR_MEMORY_ALIGNMENT_VALUE, false);
    c.run([&] { _matmul<T, M, K, N>(a, b, o); });
}
// unjudged probe: the same kernel on exact-extent, arbitrarily aligned buffers (more than its callers promise)
template <class T, size_t M, size_t K, size_t N> void op_raw_matmul_probe(Ctx &c) {
    const T *a = c.buf<T>(0, M * K, false); const T *b = c.buf<T>(1, K * N, false); T *o = c.buf<T>(2, M * N, true);
    c.run([&] { _matmul<T, M, K, N>(a, b, o); });
}
template <class T, size_t M, size_t N> void op_raw_transpose(Ctx &c) {
    const T *a = c.buf<T>(0, padded<T>(M * N), false, FASTOR_MEMORY_ALIGNMENT_VALUE, false);
    T *o = c.buf<T>(1, padded<T>(M * N), true, FASTOR_MEMORY_ALIGNMENT_VALUE, false);
    c.run([&] { _transpose<T, M, N>(a, o); });
}
template <class T, size_t N> void op_raw_inverse_det(Ctx &c) {
    T *a = c.buf<T>(0, padded<T>(N * N), false, FASTOR_MEMORY_ALIGNMENT_VALUE, false);
    for (size_t i = 0; i < N; ++i) a[i * N + i] = (T)(16 + i % 3);
    T *o = c.buf<T>(1, padded<T>(N * N), true, FASTOR_MEMORY_ALIGNMENT_VALUE, false);
    T r = 0;
    c.run([&] { _inverse<T, N>(a, o); r = _det<T, N, N>(a); });
    c.retv(r);
}

} // namespace memsim
#endif

// ---- additional families (appended): cross products, cofactor/adjoint, three-operand networks, 4-D contraction, log/abs determinants
namespace memsim {
template <class T> void op_cross3(Ctx &c) {
    auto &a = c.own<Tensor<T, 3>>(0, false); auto &b = c.own<Tensor<T, 3>>(1, false); auto &o = c.own<Tensor<T, 3>>(2, true);
    auto &A2 = c.own<Tensor<T, 3, 3>>(3, false); auto &o2 = c.own<Tensor<T, 3, 3>>(4, true);
    c.run([&] { o = cross(a, b); o2 = cross(A2, A2); });
}
template <class T> void op_cross2(Ctx &c) {
    auto &a = c.own<Tensor<T, 2>>(0, false); auto &b = c.own<Tensor<T, 2>>(1, false); auto &o = c.own<Tensor<T, 3>>(2, true);
    c.run([&] { o = cross(a, b); });
}
template <class T, size_t N> void op_cof_adj(Ctx &c) {
    auto &a = c.own_dd<Tensor<T, N, N>>(0, false); auto &o = c.own<Tensor<T, N, N>>(1, true); auto &o2 = c.own<Tensor<T, N, N>>(2, true);
    T r[2] = {0, 0};
    c.run([&] { o = cofactor(a); o2 = adjoint(a); r[0] = absdet(a); r[1] = logdet(a); });
    c.retb(r, sizeof r);
}
template <class T, size_t M, size_t K, size_t N, size_t P> void op_einsum_chain(Ctx &c) {
    auto &a = c.own<Tensor<T, M, K>>(0, false); auto &b = c.own<Tensor<T, K, N>>(1, false); auto &d = c.own<Tensor<T, N, P>>(2, false); auto &o = c.own<Tensor<T, M, P>>(3, true);
    enum { i, j, k, l };
    c.run([&] { o = einsum<Index<i, j>, Index<j, k>, Index<k, l>>(a, b, d); });
}
template <class T, size_t M, size_t N> void op_contract4(Ctx &c) {
    auto &a = c.own<Tensor<T, M, N, M, N>>(0, false); auto &b = c.own<Tensor<T, M, N>>(1, false); auto &o = c.own<Tensor<T, M, N>>(2, true);
    T r = 0;
    enum { i, j, k, l };
    c.run([&] { o = einsum<Index<i, j, k, l>, Index<k, l>>(a, b); r = inner(o, b); });
    c.retv(r);
}
template <class T, size_t N> void op_det_strategies(Ctx &c) {
    auto &a = c.own_dd<Tensor<T, N, N>>(0, false);
    T r[2] = {0, 0};
    c.run([&] { r[0] = determinant<DetCompType::LU>(a); r[1] = determinant<DetCompType::QR>(a); });
    c.retb(r, sizeof r);
}
} // namespace memsim

namespace memsim {
// a well conditioned matrix that NEEDS row exchanges: a diagonally dominant matrix with its rows rotated by one
template <class X> X &own_rot(Ctx &c, int k) {
    X &x = c.own<X>(k, false);
    using T = typename X::scalar_type; constexpr size_t n = X::size(); size_t m = 1; while (m * m < n) ++m;
    for (size_t i = 0; i < m; ++i) x.data()[((i + 1) % m) * m + i] = (T)(16 + (int)(i % 3));
    return x;
}
template <class T, size_t N> void op_piv_expr(Ctx &c) {
    auto &a = own_rot<Tensor<T, N, N>>(c, 0); auto &l = c.own<Tensor<T, N, N>>(1, true); auto &u = c.own<Tensor<T, N, N>>(2, true);
    auto &p = c.own<Tensor<size_t, N>>(3, true); auto &P = c.own<Tensor<T, N, N>>(4, true);
    uint32_t w = c.p1() % 6;
    c.run([&] {
        switch (w) {
        case 0: lu<LUCompType::BlockLUPiv>(a + 0, l, u, p); break;
        case 1: lu<LUCompType::SimpleLUPiv>(a + 0, l, u, p); break;
        case 2: lu<LUCompType::BlockLUPiv>(a + 0, l, u, P); break;
        case 3: lu<LUCompType::SimpleLUPiv>(a, l, u, P); break;
        case 4: qr<QRCompType::MGSRPiv>(a + 0, l, u, P); break;
        default: qr<QRCompType::MGSRPiv>(a, l, u, p); break;
        }
    });
}
template <class T, size_t N> void op_piv_solve_inv(Ctx &c) {
    auto &a = own_rot<Tensor<T, N, N>>(c, 0); auto &b = c.own<Tensor<T, N>>(1, false); auto &x = c.own<Tensor<T, N>>(2, true); auto &o = c.own<Tensor<T, N, N>>(3, true);
    uint32_t w = c.p1() % 4;
    T r = 0;
    c.run([&] {
        switch (w) {
        case 0: x = solve<SolveCompType::SimpleInvPiv>(a, b); break;
        case 1: x = solve<SolveCompType::BlockLUPiv>(a + 0, b); break;
        case 2: o = inverse<InvCompType::SimpleInvPiv>(a + 0); break;
        default: o = inverse<InvCompType::BlockLUPiv>(a); r = determinant<DetCompType::LU>(a + 0); break;
        }
    });
    c.retv(r);
}
} // namespace memsim

namespace memsim {
// every compound operator with a lazy product on the right, including sizes above the library's stack/heap thresholds
template <class T, size_t M, size_t K, size_t N> void op_lazy_matmul_ops(Ctx &c) {
    auto &a = c.own<Tensor<T, M, K>>(0, false); auto &b = c.own<Tensor<T, K, N>>(1, false); auto &o = c.own<Tensor<T, M, N>>(2, true);
    uint32_t w = c.p1() % 5;
    c.run([&] {
        switch (w) {
        case 0: o = a % b; break;
        case 1: o += a % b; break;
        case 2: o -= a % b; break;
        case 3: o *= a % b; break;
        default: o /= (a % b) + (T)1000; break;      // keeps integer divisors away from zero
        }
    });
}
template <class T, size_t M, size_t K, size_t N> void op_lazy_matmul_div(Ctx &c) {
    auto &a = c.own<Tensor<T, M, K>>(0, false); auto &b = c.own<Tensor<T, K, N>>(1, false); auto &o = c.own<Tensor<T, M, N>>(2, true);
    c.run([&] { o /= a % b; o *= a % b; });
}
} // namespace memsim

namespace memsim {
template <class T, size_t... D> void op_minmax(Ctx &c) {
    auto &a = c.own<Tensor<T, D...>>(0, false); TensorMap<T, D...> m(c.buf<T>(1, prod_<D...>::value, false));
    T r[4] = {0, 0, 0, 0};
    c.run([&] { r[0] = min(a); r[1] = max(a); r[2] = min(m); r[3] = max(m + m); });
    c.retb(r, sizeof r);
}
template <class T, size_t M, size_t N, size_t P, size_t Q> void op_permute4(Ctx &c) {
    auto &a = c.own<Tensor<T, M, N, P, Q>>(0, false); auto &o = c.own<Tensor<T, Q, P, N, M>>(1, true); auto &o2 = c.own<Tensor<T, N, M, Q, P>>(2, true);
    enum { i, j, k, l };
    c.run([&] { o = permute<Index<l, k, j, i>>(a); o2 = permutation<Index<j, i, l, k>>(a); });
}
} // namespace memsim

namespace memsim {
// the overloads taking lazy expressions are separate code paths (own scratch arrays)
template <class T, size_t M, size_t N, size_t P> void op_permute_expr(Ctx &c) {
    auto &a = c.own<Tensor<T, M, N, P>>(0, false); auto &b = c.own<Tensor<T, M, N, P>>(1, false); auto &o = c.own<Tensor<T, P, M, N>>(2, true); auto &o2 = c.own<Tensor<T, N, M, P>>(3, true);
    enum { i, j, k };
    c.run([&] { o = permute<Index<k, i, j>>(a + b); o2 = permutation<Index<j, i, k>>(a * (T)2 - b); });
}
template <class T, size_t M, size_t K, size_t N> void op_einsum_expr(Ctx &c) {
    auto &a = c.own<Tensor<T, M, K>>(0, false); auto &b = c.own<Tensor<T, K, N>>(1, false); auto &o = c.own<Tensor<T, M, N>>(2, true); auto &o2 = c.own<Tensor<T, K, M>>(3, true);
    enum { i, j, k };
    c.run([&] { o = einsum<Index<i, j>, Index<j, k>>(a + a, b - b * (T)2); o2 = transpose(a + a); });
}
} // namespace memsim

namespace memsim {
// noalias() snapshot paths: they copy the parent tensor into an automatic object -- no allocation, no access outside the operands
template <class T, size_t N> void op_noalias1(Ctx &c) {
    auto &a = c.own<Tensor<T, N>>(0, true); auto &it = c.own<Tensor<int, N>>(1, false); auto &it2 = c.own<Tensor<int, N>>(2, false); auto &m = c.own<Tensor<bool, N>>(3, false);
    for (size_t i = 0; i < N; ++i) { it.data()[i] = (int)i; it2.data()[i] = (int)(N - 1 - i); m.data()[i] = (i % 3) != 0; }
    uint32_t w = c.p1() % 5;
    c.run([&] {
        switch (w) {
        case 0: a(seq(1, (int)N)).noalias() = a(seq(0, (int)N - 1)); a(seq(0, (int)N - 1)).noalias() += a(seq(1, (int)N)) * (T)2; break;
        case 1: a(fseq<1, N>()).noalias() = a(fseq<0, N - 1>()); a(fseq<0, N - 1>()).noalias() -= a(fseq<1, N>()) + (T)1; break;
        case 2: a(it).noalias() = a(it2); a(it2).noalias() += a(it) + (T)1; break;
        case 3: a(m).noalias() = a(it2); a(m).noalias() += a(it2) + (T)1; break;
        default: a(fseq<1, N>()).noalias() *= a(fseq<0, N - 1>()); a(seq(0, (int)N - 1)).noalias() *= a(seq(1, (int)N)); break;
        }
    });
}
template <class T, size_t M, size_t N> void op_noalias2(Ctx &c) {
    auto &a = c.own<Tensor<T, M, N>>(0, true);
    uint32_t w = c.p1() % 4;
    c.run([&] {
        switch (w) {
        case 0: a(seq(1, (int)M), seq(0, (int)N)).noalias() = a(seq(0, (int)M - 1), seq(0, (int)N)); break;
        case 1: a(fseq<1, M>(), fall).noalias() += a(fseq<0, M - 1>(), fall); break;
        case 2: a(seq(0, (int)M), seq(1, (int)N)).noalias() -= a(seq(0, (int)M), seq(0, (int)N - 1)) * (T)2; break;
        default: a(fall, fseq<0, N - 1>()).noalias() = a(fall, fseq<1, N>()) + (T)1; break;
        }
    });
}
template <class T, size_t M, size_t N, size_t P> void op_noalias3(Ctx &c) {
    auto &a = c.own<Tensor<T, M, N, P>>(0, true);
    uint32_t w = c.p1() % 3;
    c.run([&] {
        switch (w) {
        case 0: a(seq(0, (int)M), seq(0, (int)N), seq(1, (int)P)).noalias() = a(seq(0, (int)M), seq(0, (int)N), seq(0, (int)P - 1)); break;
        case 1: a(fall, fall, fseq<1, P>()).noalias() += a(fall, fall, fseq<0, P - 1>()); break;
        default: a(seq(0, (int)M), seq(0, (int)N), seq(1, (int)P)).noalias() -= a(seq(0, (int)M), seq(0, (int)N), seq(0, (int)P - 1)) * (T)2; break;
        }
    });
}
} // namespace memsim

namespace memsim {
template <class T, size_t... D> void op_own_cx(Ctx &c) {
    auto &a = c.own<Tensor<T, D...>>(0, false); auto &b = c.own<Tensor<T, D...>>(1, false); auto &o = c.own<Tensor<T, D...>>(2, true);
    c.run([&] { o = a + b * a - b; o += a; o -= b; o *= a; o /= b; o += a * b; });
}
} // namespace memsim

