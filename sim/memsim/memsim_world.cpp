// memsim world: plan generation (random and stratified sweep), execution, oracles of C07.
#include "memsim.h"
#include "shards.inc"     // generated: declares the shard registration functions and SHARD_FNS[]

namespace memsim {

static uint8_t g_pre[2][CAPBYTES];
static uint8_t g_cap[2][CAPBYTES];

enum { SWEEP_CELLS = 3 * 16 };    // side x misalignment (x4 bytes)

struct MemWorld : World {
    std::vector<OpDesc> ops;
    MemWorld() {
        sim_name = "memsim";
        for (RegFn f : SHARD_FNS) f(ops);
    }
    uint32_t n_ops() const override { return (uint32_t)ops.size(); }
    const char *op_name(uint32_t op) const override { return ops[op % ops.size()].name.c_str(); }
    uint64_t sweep_size(const char *) const override { return (uint64_t)ops.size() * SWEEP_CELLS; }
    bool arg_shrinkable(uint32_t) const override { return true; }

    void gen_plan(const char *, int mode, uint64_t seed, uint64_t index, Plan &p) override {
        p = Plan();
        if (mode == 1) {
            // stratified: the run index, not the PRNG, selects the fault cell
            uint64_t nops = ops.size();
            uint32_t op = (uint32_t)(index % nops); uint32_t cell = (uint32_t)((index / nops) % SWEEP_CELLS);
            uint32_t sides[3] = {BACK, FRONT, MIDDLE};
            Step s; s.op = op;
            for (int k = 0; k < 4; ++k) { s.a[2 * k] = sides[cell / 16]; s.a[2 * k + 1] = (cell % 16) * 4; }
            Rng r(mix2(seed, index));
            s.a[A_POISON] = r.below(30); s.a[A_FAULT] = (cell & 1) | ((cell % 4) << 4); s.a[A_DATA] = r.below(1000);
            s.a[A_P1] = r.u32() >> 4; s.a[A_P2] = r.u32() >> 4; s.a[A_P3] = r.u32() >> 4;
            p.steps.push_back(s);
            return;
        }
        Rng r(mix2(seed, index));
        uint32_t n = 1 + r.below(4);
        // swarm: per-run bias of placement kinds
        uint32_t flush_bias = r.below(4);     // 0: mostly middle ... 3: almost always flush
        for (uint32_t i = 0; i < n; ++i) {
            Step s; s.op = r.below((uint32_t)ops.size());
            for (int k = 0; k < 4; ++k) {
                uint32_t side = r.below(4) <= flush_bias ? (r.below(2) ? BACK : FRONT) : MIDDLE;
                s.a[2 * k] = side; s.a[2 * k + 1] = r.below(3) == 0 ? 0 : r.below(64);
            }
            s.a[A_POISON] = r.below(30); s.a[A_FAULT] = (r.below(4) == 0 ? 1 : 0) | (r.below(4) << 4) | (r.below(4) == 0 ? 0x40 : 0); s.a[A_DATA] = r.below(1000);
            s.a[A_P1] = r.u32() >> 4; s.a[A_P2] = r.u32() >> 4; s.a[A_P3] = r.u32() >> 4;
            p.steps.push_back(s);
        }
    }

    // executes one pass; returns number of captured output bytes
    uint32_t one_pass(const Step &st, const OpDesc &op, int pass, uint32_t pattern, Ctx &c) {
        c.begin(&st, &op, pass, pattern, g_pre[pass]);
        g_scrub_byte = (uint8_t)(0x11 + 0x6D * pattern);      // stale-stack reads differ between the two passes
        g_stack_skew = st.a[A_FAULT] & 0x30;                  // stack alignment residue (multiples of 16 within a 64-byte line)
        op.run(c);
        if (!c.ran) { fprintf(stderr, "memsim: op %s did not execute a window\n", op.name.c_str()); _exit(2); }
        uint32_t n = 0;
        for (int i = 0; i < c.nopd; ++i) if (c.opd[i].output) { memcpy(g_cap[pass] + n, c.opd[i].p, c.opd[i].bytes); n += c.opd[i].bytes; }
        memcpy(g_cap[pass] + n, c.ret, c.retn); n += c.retn;
        return n;
    }

    void judge_pass(int stepi, const OpDesc &op, Ctx &c, Verdict &v, Counters *cnt, bool &note) {
        char k[96], d[200];
        const bool unj = op.flags & F_UNJUDGED;
        auto viol = [&](const char *kind, const char *fmt, auto... args) {
            if (unj) { note = true; if (cnt) cnt->bump(std::string("unjudged-probe-hit/") + kind + "/" + op.family); return; }
            snprintf(k, sizeof k, "%s/%s", kind, op.family);
            char f2[400]; snprintf(f2, sizeof f2, "op %s pass %d: %s", op.name.c_str(), c.pass, fmt);
            v.set(stepi, k, op.name.c_str(), f2, args...);
        };
        if (c.out.kind == 1) {
            c.out.describe(d, sizeof d);
            const char *kind = c.out.signo == SIGALRM ? "hang" : (c.out.signo == SIGSEGV || c.out.signo == SIGBUS) ? (c.out.slot < 0 ? "fault-gp" : (c.out.write ? "fault-write" : "fault-read")) : (c.out.signo == SIGFPE ? "sigfpe" : "sigill");
            viol(kind, "%s", d);
            return;
        }
        // write frame: poison and input operands unchanged
        for (int s = 0; s < NSLOTS; ++s) if (c.slot_used[s]) {
            long off = g_arena.check_poison(s);
            if (off >= 0) { viol("poison-clobbered", "byte at slot %d offset %ld outside every operand was overwritten", s, off); return; }
        }
        for (int i = 0; i < c.nopd; ++i) if (!c.opd[i].output && memcmp(c.pre + c.pre_off[i], c.opd[i].p, c.opd[i].bytes) != 0) {
            viol("input-clobbered", "input operand %d was modified", i); return;
        }
        for (int i = 0; i < c.nprot; ++i) { const Protect &pr = c.prot[i]; const Opd &o = c.opd[pr.opd];
            if (memcmp(c.pre + c.pre_off[pr.opd] + pr.off, o.p + pr.off, pr.len) != 0) { viol("protected-clobbered", "bytes [%u,%u) of operand %d (disabled lanes / unselected elements) were modified", pr.off, pr.off + pr.len, pr.opd); return; }
        }
        if (op.flags & F_BADINDEX) {
            if (c.out.kind != 2) { viol("badindex-no-error", "out-of-range index did not raise std::runtime_error (outcome %s)", c.out.what()); return; }
            for (int i = 0; i < c.nopd; ++i) if (memcmp(c.pre + c.pre_off[i], c.opd[i].p, c.opd[i].bytes) != 0) { viol("badindex-touched", "operand %d modified by a rejected access", i); return; }
            return;
        }
        if (op.flags & F_EXEMPT) { if (cnt && c.pass == 0) cnt->bump(c.out.allocs ? "probe/exempt-op-did-allocate" : "probe/exempt-op-did-NOT-allocate"); return; }
        if (c.out.allocs > 0 || c.out.kind == 3) { viol("alloc", "%u dynamic allocation request(s) inside the operation (outcome %s)", c.out.allocs, c.out.what()); return; }
        if (c.out.kind != 0) { if (cnt) cnt->bump(std::string("anomaly/exception-from-legal-op/") + op.family); }
    }

    RunResult exec_plan(const char *, const Plan &p, Counters *cnt, FILE *log) override {
        RunResult rr; Hash h; uint64_t sigs[3] = {0, 0, 0};
        for (size_t si = 0; si < p.steps.size(); ++si) {
            const Step &st = p.steps[si]; const OpDesc &op = ops[st.op % ops.size()];
            uint32_t pat0 = st.a[A_POISON] % NPOISON, pat1 = (pat0 + 1 + (st.a[A_POISON] / NPOISON) % (NPOISON - 1)) % NPOISON;
            Ctx c; bool note = false;
            uint32_t n0 = one_pass(st, op, 0, pat0, c);
            Outcome o0 = c.out; int nopd = c.nopd;
            bool flush = false, misal = false;
            for (int i = 0; i < nopd; ++i) { if (c.st->a[2 * (i & 3)] % 3 != MIDDLE) flush = true; if ((op.flags & F_ANYALIGN) && c.backoff(i)) misal = true; }
            bool armed = (st.a[A_FAULT] & 1) && !(op.flags & (F_EXEMPT | F_BADINDEX));
            judge_pass((int)si, op, c, rr.v, cnt, note);
            h.str(op.name.c_str()); for (uint32_t a : st.a) h.u64(a);
            o0.hash_into(h); h.bytes(g_cap[0], n0);
            if (log) { char d[200]; o0.describe(d, sizeof d); fprintf(log, "step %zu %s pass0 %s outbytes %u\n", si, op.name.c_str(), d, n0); }
            if (!rr.v.bad && o0.kind != 1) {
                Ctx c2; uint32_t n1 = one_pass(st, op, 1, pat1, c2);
                judge_pass((int)si, op, c2, rr.v, cnt, note);
                c2.out.hash_into(h);
                if (!rr.v.bad && c2.out.kind != 1 && !(op.flags & (F_BADINDEX | F_EXEMPT))) {
                    if (n0 != n1 || memcmp(g_cap[0], g_cap[1], n0) != 0 || o0.kind != c2.out.kind) {
                        if (log) for (uint32_t q = 0; q < n0 && q < n1; ++q) if (g_cap[0][q] != g_cap[1][q]) fprintf(log, "  capture byte %u differs: %02x vs %02x\n", q, g_cap[0][q], g_cap[1][q]);
                        if (op.flags & F_UNJUDGED) { if (cnt) cnt->bump(std::string("unjudged-probe-hit/interference/") + op.family); }
                        else { char k[96]; snprintf(k, sizeof k, "interference/%s", op.family);
                            rr.v.set((int)si, k, op.name.c_str(), "op %s: result depends on bytes outside its operands (poison %u vs %u gave different outputs)", op.name.c_str(), pat0, pat1); }
                    }
                }
                if (log) { char d[200]; c2.out.describe(d, sizeof d); fprintf(log, "step %zu %s pass1 %s outbytes %u\n", si, op.name.c_str(), d, n1); }
            }
            ++rr.steps;
            if (cnt) {
                cnt->bump("steps");
                cnt->bump(std::string("family/") + op.family);
                const char *sd[3] = {"middle", "back-flush", "front-flush"};
                for (int i = 0; i < nopd; ++i) cnt->bump(std::string("fault/placement-") + sd[st.a[2 * (i & 3)] % 3]);
                if (op.flags & F_ANYALIGN) for (int i = 0; i < nopd; ++i) { char b[48]; snprintf(b, sizeof b, "fault/misalign-%02u", c.backoff(i) / 4 * 4); cnt->bump(b); }
                { char b[48]; snprintf(b, sizeof b, "fault/poison-%u", pat0); cnt->bump(b); }
                if (armed) { cnt->bump("fault/alloc-failure-armed"); }
                { char b[48]; snprintf(b, sizeof b, "fault/stack-skew-%02u", st.a[A_FAULT] & 0x30); cnt->bump(b); }
                if ((op.flags & F_ANYALIGN) && (st.a[A_FAULT] & 0x40)) cnt->bump("fault/byte-granular-misalignment (address not a multiple of sizeof(T))");
                if (o0.allocs) cnt->bump("fault/alloc-attempted-in-window", o0.allocs);
                if (op.flags & F_BADINDEX) { cnt->bump("fault/bad-index-delivered"); if (o0.kind == 2) cnt->bump("probe/bad-index-exception-observed"); }
                if (op.flags & F_UNJUDGED) cnt->bump("unjudged-probe-steps");
                // abstract signature: (op, placement class per operand, misalignment class, fault set)
                uint64_t sg = mix2(st.op % ops.size(), 0x51);
                for (int i = 0; i < nopd && i < 4; ++i) sg = mix2(sg, (st.a[2 * i] % 3) * 64 + ((op.flags & F_ANYALIGN) ? c.backoff(i) : 0));
                sg = mix2(sg, (armed ? 1 : 0) | (st.a[A_FAULT] & 0x70));
                cnt->sig_all.insert(sg);
                bool nontrivial = flush || misal || armed || (op.flags & F_BADINDEX);
                if (nontrivial) cnt->sig_nontrivial.insert(sg);
                sigs[0] = sigs[1]; sigs[1] = sigs[2]; sigs[2] = sg;
                cnt->seq3.insert(mix2(mix2(sigs[0], sigs[1]), sigs[2]));
            }
            if (rr.v.bad) break;
        }
        rr.hash = h.h;
        return rr;
    }
};

} // namespace memsim

namespace fsim { World *make_world() { return new memsim::MemWorld(); } }
