// memsim: the C07 world. One library operation at a time, operands placed by the plan
// flush against PROT_NONE pages / at a chosen misalignment / in the middle of poison,
// allocator audited, executed twice under different surrounding poison.
#ifndef MEMSIM_H
#define MEMSIM_H
#include "../core/fsim.h"
#include <Fastor/Fastor.h>
#include <array>
#include <sstream>

namespace memsim {
using namespace fsim;

enum OpFlags : uint32_t {
    F_EXEMPT   = 1,    // conversion to std::vector / text output: expected to allocate (reverse probe)
    F_BADINDEX = 2,    // deliberately out-of-range index; library promises std::runtime_error (checks-on builds only)
    F_UNJUDGED = 4,    // probe outside the library's own storage contract: hits are notes, never violations
    F_ANYALIGN = 8,    // operands are external buffers: every alignof(T)-multiple misalignment is legal
};
struct Ctx;
struct OpDesc { std::string name; const char *family; void (*run)(Ctx &); uint32_t flags; };
typedef void (*RegFn)(std::vector<OpDesc> &);

// step argument layout
enum { A_SIDE0 = 0, A_BACK0 = 1, /* ... 2k, 2k+1 for k<4 */ A_POISON = 8, A_FAULT = 9, A_DATA = 10, A_P1 = 11, A_P2 = 12, A_P3 = 13 };

enum { MAXOPD = 8, CAPBYTES = 1 << 16 };
struct Opd { uint8_t *p; uint32_t bytes; bool output; int slot; };
struct Protect { int opd; uint32_t off, len; };

struct Ctx {
    const Step *st = nullptr; const OpDesc *op = nullptr; int pass = 0; uint32_t pattern = 0;
    int nopd = 0; Opd opd[MAXOPD]; bool slot_used[NSLOTS];
    int nprot = 0; Protect prot[16];
    bool ran = false; Outcome out;
    uint8_t ret[512]; uint32_t retn = 0;
    // pre-window snapshot of all operand bytes (inputs must be unchanged afterwards)
    uint8_t *pre; uint32_t pre_off[MAXOPD];

    void begin(const Step *s, const OpDesc *o, int pass_, uint32_t pat, uint8_t *prebuf) {
        st = s; op = o; pass = pass_; pattern = pat; nopd = 0; nprot = 0; ran = false; retn = 0; out = Outcome(); pre = prebuf;
        for (auto &u : slot_used) u = false;
    }
    uint32_t side(int k) const { return st->a[2 * (k & 3)] % 3; }
    uint32_t backoff(int k) const { return st->a[2 * (k & 3) + 1] % 64; }
    uint32_t p1() const { return st->a[A_P1]; }
    uint32_t p2() const { return st->a[A_P2]; }
    uint32_t p3() const { return st->a[A_P3]; }

    uint8_t *carve(int k, size_t bytes, size_t align, bool output, bool anyalign) {
        int s = nopd;                      // one slot per operand so that each can be flush on its own
        if (s >= NSLOTS || nopd >= MAXOPD) { fprintf(stderr, "memsim: too many operands\n"); _exit(2); }
        if (!slot_used[s]) { g_arena.reset(s, pattern); slot_used[s] = true; }
        uint32_t bo = anyalign ? backoff(k) : 0;
        // the property speaks of EVERY misalignment 0..63 bytes of a wrapped buffer: with the plan's byte-granular flag the buffer
        // may start at an address that is not even a multiple of sizeof(T)
        if (anyalign && (st->a[A_FAULT] & 0x40) && align <= 8) align = 1;
        uint8_t *p = g_arena.place(s, bytes, align, side(k), bo, output);
        opd[nopd++] = Opd{p, (uint32_t)bytes, output, s};
        return p;
    }
    // deterministic small non-zero integers: arithmetic on them is exact in every element type
    int small(int k, size_t i) const {
        uint64_t h = mix2(((uint64_t)st->a[A_DATA] << 8) | (uint64_t)k, i);
        int v = (int)(h % 6) + 1; return (h >> 20) & 1 ? -v : v;
    }
    // owning tensor: the object (sizeof, including the library's own padding) is the operand
    template <class X> X &own(int k, bool output) {
        uint8_t *p = carve(k, sizeof(X), alignof(X), output, false);
        memset(p, 0, sizeof(X));                          // padding identical in both passes
        X *x = new (p) X;
        using T = typename X::scalar_type;
        T *d = x->data();
        for (size_t i = 0; i < (size_t)X::size(); ++i) d[i] = (T)small(k, i);
        return *x;
    }
    // diagonally dominant square matrix (well conditioned input for inverse / lu / solve / qr)
    template <class X> X &own_dd(int k, bool output) {
        X &x = own<X>(k, output);
        using T = typename X::scalar_type;
        constexpr size_t n = X::size();
        size_t m = 1; while (m * m < n) ++m;
        if (m * m == n) for (size_t i = 0; i < m; ++i) x.data()[i * m + i] = (T)(16 + (int)(i % 3));
        return x;
    }
    // exact-extent external buffer (for TensorMap / raw kernels / SIMD loads): no padding at all
    template <class T> T *buf(int k, size_t count, bool output, size_t align = alignof(T), bool anyalign = true) {
        uint8_t *p = carve(k, count * sizeof(T), align, output, anyalign);
        T *d = (T *)p;
        for (size_t i = 0; i < count; ++i) d[i] = (T)small(k, i);
        return d;
    }
    void protect(int opd_index, size_t off, size_t len) { if (nprot < 16) prot[nprot++] = Protect{opd_index, (uint32_t)off, (uint32_t)len}; }
    template <class R> void retv(const R &r) { if (retn + sizeof(R) <= sizeof ret) { memcpy(ret + retn, &r, sizeof(R)); retn += sizeof(R); } }
    void retb(const void *p, size_t n) { if (retn + n <= sizeof ret) { memcpy(ret + retn, p, n); retn += (uint32_t)n; } }

    template <class F> void run(F &&f) {
        uint32_t off = 0;
        for (int i = 0; i < nopd; ++i) { pre_off[i] = off; memcpy(pre + off, opd[i].p, opd[i].bytes); off += opd[i].bytes; }
        bool arm = (st->a[A_FAULT] & 1) && !(op->flags & (F_EXEMPT | F_BADINDEX));
        out = window(f, arm);
        ran = true;
    }
};

#define MEMSIM_REG(vec, fn, nm, fam, flags) (vec).push_back(::memsim::OpDesc{nm, fam, fn, (uint32_t)(flags)})

} // namespace memsim
#endif
