// memsim operand kind (d): SIMD wrapper loads/stores and partial-load helpers called directly
// at plan-chosen addresses. Aligned forms only at addresses that are aligned.
#ifndef MEMSIM_OPS_SIMD_H
#define MEMSIM_OPS_SIMD_H
#include "memsim.h"

namespace memsim {
using namespace Fastor;

template <class V> struct mask_bits {
    // the member functions take uint8_t masks except float/avx512 (uint16_t)
    static constexpr unsigned value = V::Size < 8 ? V::Size : (std::is_same<V, SIMDVector<float, simd_abi::avx512>>::value ? 16 : 8);
};

template <class V> void op_simd_loadu(Ctx &c) {
    using T = typename V::scalar_value_type;
    const T *p = c.buf<T>(0, V::Size, false);
    T tmp[V::Size];
    c.run([&] { V v; v.load(p, false); v.store(tmp, false); });
    c.retb(tmp, sizeof tmp);
}
template <class V> void op_simd_storeu(Ctx &c) {
    using T = typename V::scalar_value_type;
    T *p = c.buf<T>(0, V::Size, true);
    c.run([&] { V v((T)3); v.store(p, false); });
}
template <class V> void op_simd_ctor_ptr(Ctx &c) {
    using T = typename V::scalar_value_type;
    const T *p = c.buf<T>(0, V::Size, false);
    T tmp[V::Size];
    c.run([&] { V v(p, false); v.store(tmp, false); });
    c.retb(tmp, sizeof tmp);
}
template <class V> void op_simd_loada(Ctx &c) {
    using T = typename V::scalar_value_type;
    const T *p = c.buf<T>(0, V::Size, false, sizeof(T) * V::Size, false);
    T tmp[V::Size];
    c.run([&] { V v; v.load(p, true); v.store(tmp, false); V w; w.aligned_load(p); w.store(tmp, false); });
    c.retb(tmp, sizeof tmp);
}
template <class V> void op_simd_storea(Ctx &c) {
    using T = typename V::scalar_value_type;
    T *p = c.buf<T>(0, V::Size, true, sizeof(T) * V::Size, false);
    c.run([&] { V v((T)3); v.store(p, true); v.aligned_store(p); });
}
// masked member load: operand is exactly lanes [lo,hi] of the enabled set; everything else is guard or poison
template <class V> void op_simd_mask_load(Ctx &c) {
    using T = typename V::scalar_value_type;
    constexpr unsigned NB = mask_bits<V>::value;
    uint32_t mask = c.p1() % ((1u << NB) - 1) + 1;
    int lo = 0, hi = 0; for (int i = 0; i < (int)NB; ++i) if (mask >> i & 1) hi = i; for (int i = NB - 1; i >= 0; --i) if (mask >> i & 1) lo = i;
    const T *b = c.buf<T>(0, hi - lo + 1, false);
    const T *p = b - lo;
    T tmp[V::Size];
    c.run([&] { V v; v.mask_load(p, mask, false); v.store(tmp, false); });
    // only the enabled lanes are results; lanes the mask disables are unspecified by the call
    for (int i = 0; i < (int)NB; ++i) if (mask >> i & 1) c.retv(tmp[i]);
}
template <class V> void op_simd_mask_store(Ctx &c) {
    using T = typename V::scalar_value_type;
    constexpr unsigned NB = mask_bits<V>::value;
    uint32_t mask = c.p1() % ((1u << NB) - 1) + 1;
    int lo = 0, hi = 0; for (int i = 0; i < (int)NB; ++i) if (mask >> i & 1) hi = i; for (int i = NB - 1; i >= 0; --i) if (mask >> i & 1) lo = i;
    T *b = c.buf<T>(0, hi - lo + 1, true);
    T *p = b - lo;
    for (int i = lo; i <= hi; ++i) if (!(mask >> i & 1)) c.protect(0, (size_t)(i - lo) * sizeof(T), sizeof(T));
    c.run([&] { V v((T)7); v.mask_store(p, mask, false); });
}
// free maskload/maskstore with the int-array mask (reversed lane order, as the kernels build it)
template <class V> void op_simd_free_maskload(Ctx &c) {
    using T = typename V::scalar_value_type;
    constexpr int N = V::Size;
    uint32_t k = c.p1() % N + 1;       // remainder idiom: the first k lanes are enabled
    int maska[N]; for (int i = 0; i < N; ++i) maska[N - 1 - i] = i < (int)k ? -1 : 0;
    const T *p = c.buf<T>(0, k, false);
    T tmp[N];
    c.run([&] { V v = maskload<V>(p, maska); v.store(tmp, false); });
    c.retb(tmp, sizeof(T) * k);
}
template <class V> void op_simd_free_maskstore(Ctx &c) {
    using T = typename V::scalar_value_type;
    constexpr int N = V::Size;
    uint32_t k = c.p1() % N + 1;
    int maska[N]; for (int i = 0; i < N; ++i) maska[N - 1 - i] = i < (int)k ? -1 : 0;
    T *p = c.buf<T>(0, k, true);
    c.run([&] { V v((T)5); maskstore(p, maska, v); });
}

#ifdef FASTOR_SSE2_IMPL
inline void op_loadul3_ps(Ctx &c) {
    const float *p = c.buf<float>(0, 3, false);
    float tmp[4];
    c.run([&] { __m128 v = _mm_loadul3_ps(p); _mm_storeu_ps(tmp, v); });
    c.retb(tmp, 12);
}
inline void op_loadl3_ps(Ctx &c) {
    const float *p = c.buf<float>(0, 3, false, 16, false);
    float tmp[4];
    c.run([&] { __m128 v = _mm_loadl3_ps(p); _mm_storeu_ps(tmp, v); });
    c.retb(tmp, 12);
}
inline void op_storeul3_ps(Ctx &c) {
    float *p = c.buf<float>(0, 3, true);
    c.run([&] { _mm_storeul3_ps(p, _mm_set1_ps(2.f)); });
}
inline void op_storel3_ps(Ctx &c) {
    float *p = c.buf<float>(0, 3, true, 16, false);
    c.run([&] { _mm_storel3_ps(p, _mm_set1_ps(2.f)); });
}
#endif
#ifdef FASTOR_AVX_IMPL
inline void op_loadul3_pd(Ctx &c) {
    const double *p = c.buf<double>(0, 3, false);
    double tmp[4];
    c.run([&] { __m256d v = _mm256_loadul3_pd(p); _mm256_storeu_pd(tmp, v); });
    c.retb(tmp, 24);
}
inline void op_loadl3_pd(Ctx &c) {
    const double *p = c.buf<double>(0, 3, false, 32, false);
    double tmp[4];
    c.run([&] { __m256d v = _mm256_loadl3_pd(p); _mm256_storeu_pd(tmp, v); });
    c.retb(tmp, 24);
}
inline void op_storeul3_pd(Ctx &c) {
    double *p = c.buf<double>(0, 3, true);
    c.run([&] { _mm256_storeul3_pd(p, _mm256_set1_pd(2.)); });
}
inline void op_storel3_pd(Ctx &c) {
    double *p = c.buf<double>(0, 3, true, 32, false);
    c.run([&] { _mm256_storel3_pd(p, _mm256_set1_pd(2.)); });
}
#endif

// strided gather/scatter helpers used by views: touch exactly Size elements at stride s
template <class V> void op_vector_setter(Ctx &c) {
    using T = typename V::scalar_value_type;
    int stride = 1 + (int)(c.p1() % 5);
    size_t count = (size_t)(V::Size - 1) * stride + 1;
    const T *p = c.buf<T>(0, count, false);
    T tmp[V::Size];
    c.run([&] { V v; vector_setter(v, p, 0, stride); v.store(tmp, false); });
    c.retb(tmp, sizeof tmp);
}
template <class V> void op_data_setter(Ctx &c) {
    using T = typename V::scalar_value_type;
    int stride = 1 + (int)(c.p1() % 5);
    size_t count = (size_t)(V::Size - 1) * stride + 1;
    T *p = c.buf<T>(0, count, true);
    for (size_t i = 0; i < count; ++i) if (i % stride) c.protect(0, i * sizeof(T), sizeof(T));
    c.run([&] { V v((T)9); data_setter(p, v, 0, stride); });
}

template <class V, bool Setters = true> struct reg_setters { static void go(std::vector<OpDesc> &v, const std::string &tag) {
    MEMSIM_REG(v, op_vector_setter<V>, "vector_setter<" + tag + ">", "simd_gather", F_ANYALIGN);
    MEMSIM_REG(v, op_data_setter<V>, "data_setter<" + tag + ">", "simd_scatter", F_ANYALIGN);
} };
template <class V> struct reg_setters<V, false> { static void go(std::vector<OpDesc> &, const std::string &) {} };
template <class V, bool Setters = true> void reg_simd(std::vector<OpDesc> &v, const std::string &tag) {
    MEMSIM_REG(v, op_simd_loadu<V>, "simd_loadu<" + tag + ">", "simd_load", F_ANYALIGN);
    MEMSIM_REG(v, op_simd_storeu<V>, "simd_storeu<" + tag + ">", "simd_store", F_ANYALIGN);
    MEMSIM_REG(v, op_simd_ctor_ptr<V>, "simd_ctor_ptr<" + tag + ">", "simd_load", F_ANYALIGN);
    MEMSIM_REG(v, op_simd_loada<V>, "simd_loada<" + tag + ">", "simd_load", 0);
    MEMSIM_REG(v, op_simd_storea<V>, "simd_storea<" + tag + ">", "simd_store", 0);
    MEMSIM_REG(v, op_simd_mask_load<V>, "simd_mask_load<" + tag + ">", "simd_mask_load", F_ANYALIGN);
    MEMSIM_REG(v, op_simd_mask_store<V>, "simd_mask_store<" + tag + ">", "simd_mask_store", F_ANYALIGN);
    MEMSIM_REG(v, op_simd_free_maskload<V>, "simd_free_maskload<" + tag + ">", "simd_maskload", F_ANYALIGN);
    MEMSIM_REG(v, op_simd_free_maskstore<V>, "simd_free_maskstore<" + tag + ">", "simd_maskstore", F_ANYALIGN);
    reg_setters<V, Setters>::go(v, tag);
}

inline void reg_simd_all(std::vector<OpDesc> &v) {
#ifdef FASTOR_SSE2_IMPL
    reg_simd<SIMDVector<float, simd_abi::sse>>(v, "float,sse");
    reg_simd<SIMDVector<double, simd_abi::sse>>(v, "double,sse");
    reg_simd<SIMDVector<int32_t, simd_abi::sse>>(v, "int32,sse");
    reg_simd<SIMDVector<int64_t, simd_abi::sse>>(v, "int64,sse");
    MEMSIM_REG(v, op_loadul3_ps, "loadul3_ps", "partial_load", F_ANYALIGN);
    MEMSIM_REG(v, op_loadl3_ps, "loadl3_ps", "partial_load", 0);
    MEMSIM_REG(v, op_storeul3_ps, "storeul3_ps", "partial_store", F_ANYALIGN);
    MEMSIM_REG(v, op_storel3_ps, "storel3_ps", "partial_store", 0);
#endif
#ifdef FASTOR_AVX_IMPL
    reg_simd<SIMDVector<float, simd_abi::avx>>(v, "float,avx");
    reg_simd<SIMDVector<double, simd_abi::avx>>(v, "double,avx");
    MEMSIM_REG(v, op_loadul3_pd, "loadul3_pd", "partial_load", F_ANYALIGN);
    MEMSIM_REG(v, op_loadl3_pd, "loadl3_pd", "partial_load", 0);
    MEMSIM_REG(v, op_storeul3_pd, "storeul3_pd", "partial_store", F_ANYALIGN);
    MEMSIM_REG(v, op_storel3_pd, "storel3_pd", "partial_store", 0);
#endif
#ifdef FASTOR_AVX2_IMPL
    reg_simd<SIMDVector<int32_t, simd_abi::avx>>(v, "int32,avx");
    reg_simd<SIMDVector<int64_t, simd_abi::avx>>(v, "int64,avx");
#endif
#ifdef FASTOR_AVX512F_IMPL
    reg_simd<SIMDVector<float, simd_abi::avx512>>(v, "float,avx512");
    reg_simd<SIMDVector<double, simd_abi::avx512>>(v, "double,avx512");
    reg_simd<SIMDVector<int32_t, simd_abi::avx512>>(v, "int32,avx512");
    reg_simd<SIMDVector<int64_t, simd_abi::avx512>>(v, "int64,avx512");
#endif
    reg_simd<SIMDVector<float, simd_abi::scalar>>(v, "float,scalar");
    reg_simd<SIMDVector<double, simd_abi::fixed_size<4>>, false>(v, "double,fixed4");
}

} // namespace memsim
#endif
