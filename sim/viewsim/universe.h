// viewsim universe: one parent tensor type Tensor<T,D...>, cells A (destination), B, C of
// that type in the arena, shadows, long-lived dynamic view handles, and the step kinds.
#ifndef VIEWSIM_UNIVERSE_H
#define VIEWSIM_UNIVERSE_H
#include "viewsim.h"

#ifndef VIEWSIM_MAP_PARENT
#define VIEWSIM_MAP_PARENT 0      // 1: the destination A is a TensorMap over an exact-extent, possibly misaligned arena buffer (C05 kinds only)
#endif

namespace viewsim {

// compile-time gate: the generic lambda is instantiated only when the form exists for this parent type
template <bool OK> struct Gate { template <class F, class X> static void run(F &&f, X &x) { f(x); } };
template <> struct Gate<false> { template <class F, class X> static void run(F &&, X &) {} };

enum Kind : uint32_t { K_DYN_WRITE = 0, K_ELEM_WRITE = 1, K_DYN_ALIAS = 2, K_H_CREATE = 3, K_H_NOALIAS = 4, K_H_ASSIGN = 5, K_IDX_ALIAS = 6, K_MASK_ALIAS = 7, K_DIAG = 8, K_BAD_ELEM = 9, K_BOOL_WRITE = 10, K_FLAT_WRITE = 11, K_FIX_BASE = 16 };
enum { NHANDLES = 3 };

template <class T, size_t... D> struct Uni;

// fixed-view ops are free functions bound to a universe type
struct StepCtx;
template <class U> struct FixOp { std::string name; const char *family; void (*fn)(U &, const Step &, StepCtx &); };

struct StepCtx {
    const char *prop; int si; Verdict *v; Counters *cnt; StepInfo *info; Hash *h; FILE *log; const char *opname;
};

// ---- view construction for every rank and form -----------------------------------------------------------
template <int R> struct MkView;
template <> struct MkView<1> {
    enum { NFORMS = 1 };
    template <class X> static auto mk(X &t, const seq *q, const int *, int) { return t(q[0]); }
};
template <> struct MkView<2> {
    enum { NFORMS = 7 };
    template <class X> static auto mk(X &t, const seq *q, const int *fixi, int form) {
        switch (form) {
        case 1: return t(fixi[0], q[1]);
        case 2: return t(q[0], fixi[1]);
        case 3: return t(all, q[1]);
        case 4: return t(q[0], all);
        case 5: return t(fixi[0], all);
        case 6: return t(all, fixi[1]);
        default: return t(q[0], q[1]);
        }
    }
};
template <> struct MkView<3> {
    enum { NFORMS = 5 };
    template <class X> static auto mk(X &t, const seq *q, const int *fixi, int form) {
        switch (form) {
        case 1: return t(fixi[0], q[1], q[2]);
        case 2: return t(q[0], q[1], fixi[2]);
        case 3: return t(all, q[1], q[2]);
        case 4: return t(q[0], q[1], all);
        default: return t(q[0], q[1], q[2]);
        }
    }
};
template <> struct MkView<4> {
    enum { NFORMS = 3 };
    template <class X> static auto mk(X &t, const seq *q, const int *fixi, int form) {
        switch (form) {
        case 1: return t(fixi[0], q[1], q[2], q[3]);
        case 2: return t(q[0], q[1], q[2], all);
        default: return t(q[0], q[1], q[2], q[3]);
        }
    }
};
// which axis a form pins to an integer (-1 none) / to `all` (-1 none)
inline int form_int_axis(int R, int form) { if (R < 2) return -1; if (form == 1) return 0; if (form == 2 && R < 4) return R - 1; if (R == 2 && form == 5) return 0; if (R == 2 && form == 6) return 1; return -1; }
inline int form_all_axis(int R, int form) { if (R < 2) return -1; if (R == 4) return form == 2 ? 3 : -1; if (form == 3) return 0; if (form == 4) return R - 1; if (R == 2 && form == 5) return 1; if (R == 2 && form == 6) return 0; return -1; }

// full-range right-hand side that requires evaluation (square rank-2 parents): B % C
template <class Ten> struct FullEval { enum { available = 0 }; template <class A> static void go(int, A &, const Ten &, const Ten &) {} static Ten ref(const Ten &b, const Ten &) { return b; } };
template <class T, size_t N> struct FullEval<Tensor<T, N, N>> { enum { available = 1 };
    template <class A> static void go(int op, A &a, const Tensor<T, N, N> &b, const Tensor<T, N, N> &c) { do_assign(op, a(all, all), b % c); }
    static Tensor<T, N, N> ref(const Tensor<T, N, N> &b, const Tensor<T, N, N> &c) { Tensor<T, N, N> r = b % c; return r; } };

// evaluation-requiring right-hand side for a PARTIAL dynamic view: the selection is forced to compile-time extents (EP[,EQ])
template <class Ten> struct PartEval { enum { available = 0 }; };
template <class T, size_t N> struct PartEval<Tensor<T, N>> { enum { available = 1, EP = (N < 3 ? N : 3), EQ = 1 };
    Tensor<T, EP, 2> X; Tensor<T, 2> y;
    void fill(uint32_t seed) { for (size_t i = 0; i < EP * 2; ++i) X.data()[i] = smallval<T>(mix2(seed, i)); for (size_t i = 0; i < 2; ++i) y.data()[i] = smallval<T>(mix2(seed + 9, i)); }
    auto expr() const { return X % y; }
    Tensor<T, EP> ref() const { Tensor<T, EP> r = X % y; return r; } };
template <class T, size_t M, size_t N> struct PartEval<Tensor<T, M, N>> { enum { available = 1, EP = (M < 2 ? M : 2), EQ = (N < 3 ? N : 3) };
    Tensor<T, EP, 2> X; Tensor<T, 2, EQ> Y;
    void fill(uint32_t seed) { for (size_t i = 0; i < EP * 2; ++i) X.data()[i] = smallval<T>(mix2(seed, i)); for (size_t i = 0; i < 2 * EQ; ++i) Y.data()[i] = smallval<T>(mix2(seed + 9, i)); }
    auto expr() const { return X % Y; }
    Tensor<T, EP, EQ> ref() const { Tensor<T, EP, EQ> r = X % Y; return r; } };
template <class Ten, bool Av = PartEval<Ten>::available && !VIEWSIM_MAP_PARENT> struct PartEvalRun {
    template <class U, class S> static bool go(U &, int, const Step &, Outcome &, S &, seq *, int *) { return false; } };
template <class Ten> struct PartEvalRun<Ten, true> {
    // forces the extents of d, computes expA and runs the assignment; returns true when handled
    template <class U> static bool go(U &u, int op, const Step &st, Outcome &o, typename U::SelT &d, seq *q, int *fixi) {
        using T = typename Ten::scalar_type; using PE = PartEval<Ten>;
        const int want[2] = {(int)PE::EP, (int)PE::EQ};
        for (int k = 0; k < U::R; ++k) { int N = u.dims[k]; int e = want[k]; if ((e - 1) * d.s[k] >= N) d.s[k] = 1; if (d.f[k] + (e - 1) * d.s[k] >= N) d.f[k] = N - 1 - (e - 1) * d.s[k]; d.ext[k] = e; d.l[k] = d.f[k] + (e - 1) * d.s[k] + 1; }
        u.build_args(d, 0, 0, q, fixi);
        PE pe; pe.fill(st.a[A_VAL]); auto ref = pe.ref();
        for (int qi = 0, n = d.size(); qi < n; ++qi) { int di = d.at(u.dims, qi); u.expA[di] = apply_op<T>(op, u.sA[di], ref.data()[qi]); }
        auto &a = *u.A;
        o = window([&] { do_assign(op, MkView<U::R>::mk(a, q, fixi, 0), pe.expr()); }, u.failalloc);
        return true;
    } };

template <class T, size_t... D> struct Uni : UniverseBase {
    using Ten = Tensor<T, D...>;
    using self = Uni<T, D...>;
    static constexpr int R = (int)sizeof...(D);
    static constexpr int SZ = (int)prod_<D...>::value;
#if VIEWSIM_MAP_PARENT
    using Par = TensorMap<T, D...>;          // views of a map of EVERY rank go through the generic n-d view classes
    alignas(16) unsigned char parstore[sizeof(Par)];
    // dynamic views of rank-1/2 maps accept scalars only on the pinned tree (their expression overloads do not compile: they build a
    // TensorViewExpr<Tensor<..>,1|2> from a std::array of ranges); compile-time views and rank >= 3 dynamic views accept every form
    static constexpr bool DYN_EXPR_OK = R >= 3;
#else
    using Par = Ten;
    static constexpr bool DYN_EXPR_OK = true;
#endif
    using View = TensorViewExpr<Par, (size_t)R>;
    // Tensor<bool> destinations assigned from comparison / logical expressions: the views have a separate is_boolean_expression branch, which
    // exists for rank-1/2 views only and (for dynamic 2-D views) does not compile under FASTOR_USE_VECTORISED_EXPR_ASSIGN on the pinned tree
#if defined(FASTOR_USE_VECTORISED_EXPR_ASSIGN) || VIEWSIM_MAP_PARENT
    static constexpr bool BOOL_OK = false;
#else
    static constexpr bool BOOL_OK = R <= 2;
#endif
    using BTen = Tensor<bool, D...>; BTen *G = nullptr; std::vector<unsigned char> sG, expG;
    static constexpr int LANES = (int)Ten::simd_vector_type::Size;
    using SelT = Sel<R>;

    std::string nm;
    int dims[R];
    Par *A = nullptr; Ten *B = nullptr, *C = nullptr;
    using Flat = Tensor<T, (size_t)SZ>; Flat *F = nullptr;      // a rank-1 tensor of the same element count (rank-mismatched right-hand sides)
    std::vector<T> sA, sB, sC, sF, expA, naive;
    uint32_t dataseed = 0, sideA = 0;
    bool failalloc = false;
    std::vector<FixOp<self>> fix;
    // long-lived handles (dynamic views of A)
    struct Handle { alignas(View) unsigned char store[sizeof(View)]; bool live = false, armed = false; Sel<R> sel; } hd[NHANDLES];

    explicit Uni(const char *n) : nm(n) { const int dd[R] = {(int)D...}; for (int k = 0; k < R; ++k) dims[k] = dd[k]; sA.resize(SZ); sB.resize(SZ); sC.resize(SZ); sF.resize(SZ); expA.resize(SZ); naive.resize(SZ); }
    const char *name() const override { return nm.c_str(); }

    // ---------------------------------------------------------------- cells
    void refill_A(uint64_t salt, bool pow2) {
        for (int i = 0; i < SZ; ++i) { uint64_t hh = mix2(((uint64_t)dataseed << 20) ^ salt, (uint64_t)i); sA[i] = pow2 ? pow2val<T>(hh) : smallval<T>(hh); A->data()[i] = sA[i]; }
    }
    void setup(const Plan &p) override {
        dataseed = p.hdr[H_DATA]; sideA = p.hdr[H_SIDE_A] % 3; failalloc = p.hdr[H_FAILALLOC] & 1;
        uint32_t pat = p.hdr[H_POISON];
        for (int s = 0; s < 4; ++s) g_arena.reset(s, pat + (uint32_t)s);
        g_scrub_byte = (uint8_t)(0x31 + 7 * pat); g_stack_skew = (p.hdr[H_DATA] & 3) << 4;
#if VIEWSIM_MAP_PARENT
        // exact-extent buffer, element-granular misalignment 0..63 chosen by the plan (flush against the guard page in half of the runs)
        const size_t abytes = sizeof(T) * (size_t)SZ;
        uint8_t *pa = g_arena.place(0, abytes, sizeof(T), sideA, (p.hdr[H_DATA] & 4) ? 0 : ((p.hdr[H_DATA] >> 3) % 64), true);
#else
        const size_t abytes = sizeof(Ten);
        uint8_t *pa = g_arena.place(0, sizeof(Ten), alignof(Ten), sideA, 0, true);
#endif
        uint8_t *pb = g_arena.place(1, sizeof(Ten), alignof(Ten), p.hdr[H_SIDE_B] % 3, 0, false);
        uint8_t *pc = g_arena.place(2, sizeof(Ten), alignof(Ten), MIDDLE, 0, false);
        uint8_t *pf = g_arena.place(3, sizeof(Flat), alignof(Flat), MIDDLE, 0, false);
        memset(pa, 0, abytes); memset(pb, 0, sizeof(Ten)); memset(pc, 0, sizeof(Ten)); memset(pf, 0, sizeof(Flat));
#if VIEWSIM_MAP_PARENT
        A = new (parstore) Par(reinterpret_cast<T *>(pa));
#else
        A = new (pa) Ten;
#endif
        { uint8_t *pg = g_arena.place(3, sizeof(BTen), alignof(BTen), sideA, 0, true); memset(pg, 0, sizeof(BTen)); G = new (pg) BTen;
          sG.resize(SZ); expG.resize(SZ); for (int i = 0; i < SZ; ++i) { sG[i] = (unsigned char)(mix2(dataseed * 11u + 5, (uint64_t)i) & 1); G->data()[i] = sG[i] != 0; } }
        B = new (pb) Ten; C = new (pc) Ten; F = new (pf) Flat;
        for (int i = 0; i < SZ; ++i) { sF[i] = pow2val<T>(mix2(dataseed * 7u + 3, (uint64_t)i)); F->data()[i] = sF[i]; }
        refill_A(0, false);
        for (int i = 0; i < SZ; ++i) { sB[i] = pow2val<T>(mix2(dataseed * 3u + 1, (uint64_t)i)); B->data()[i] = sB[i]; sC[i] = smallval<T>(mix2(dataseed * 5u + 2, (uint64_t)i)); C->data()[i] = sC[i]; }
        for (auto &h : hd) { h.live = false; h.armed = false; }
    }
    T maxabs() const { T m = 0; for (int i = 0; i < SZ; ++i) { T a = sA[i] < 0 ? (T)(-sA[i]) : sA[i]; if (a > m) m = a; } return m; }
    bool has_zero_or_nonpow2() const { for (int i = 0; i < SZ; ++i) { double a = std::fabs((double)sA[i]); if (a == 0) return true; int e; double m = std::frexp(a, &e); if (m != 0.5) return true; if (e > 12 || e < -10) return true; } return false; }
    // implicit reset: keeps every plan legal under step deletion (shrinking)
    void normalise(int si, int op, bool alias_div) {
        if (alias_div && op == 4) { if (has_zero_or_nonpow2()) refill_A(1000 + (uint64_t)si, true); return; }
        if (maxabs() > (T)2048 || !(maxabs() >= 0)) refill_A(2000 + (uint64_t)si, false);
        if (std::is_floating_point<T>::value) { for (int i = 0; i < SZ; ++i) if ((double)sA[i] != std::floor((double)sA[i])) { refill_A(3000 + (uint64_t)si, false); break; } }
    }

    // ---------------------------------------------------------------- selection decoding
    // dst selection from args a[base..base+2] per axis k (shared by dynamic and handle steps)
    void decode_sel(const Step &st, int base, int nax_args, Sel<R> &s, bool big = false) const {
        for (int k = 0; k < R; ++k) {
            uint32_t a0 = st.a[base + (3 * k) % nax_args], a1 = st.a[base + (3 * k + 1) % nax_args], a2 = st.a[base + (3 * k + 2) % nax_args];
            if (R > 3) { a0 = mix2(a0, k) >> 40; a1 = mix2(a1, k + 7) >> 40; a2 = mix2(a2, k + 13) >> 40; }   // 4 axes share 9 argument slots
            int N = dims[k];
            int step = 1 + (int)(a2 % 3);
            int f = big ? (int)(a0 % (uint32_t)(N / 3 + 1)) : (int)(a0 % (uint32_t)N);
            int maxcount = (N - f + step - 1) / step;
            int count = big ? maxcount - (int)(a1 % (uint32_t)(maxcount / 3 + 1)) : 1 + (int)(a1 % (uint32_t)maxcount);
            s.f[k] = f; s.s[k] = step; s.ext[k] = count;
            // ceil((last-first)/step) == count  <=>  last in [f+(count-1)*step+1, f+count*step]; clip to N
            int lo = f + (count - 1) * step + 1, hi = std::min(N, f + count * step);
            s.l[k] = lo + (int)((a2 / 3) % (uint32_t)(hi - lo + 1));
        }
    }
    // an equal-extent selection elsewhere (source ranges "with any range of equal extent")
    void decode_src(const Step &st, int base, const Sel<R> &dst, Sel<R> &s, uint32_t salt) const {
        for (int k = 0; k < R; ++k) {
            uint64_t hh = mix2(((uint64_t)st.a[base + k % 3] << 8) | salt, (uint64_t)k);
            int N = dims[k], ext = dst.ext[k];
            int step = 1 + (int)(hh % 3); while (step > 1 && (ext - 1) * step >= N) --step;
            int room = N - (ext - 1) * step;          // >= 1
            int f = (int)((hh >> 8) % (uint32_t)room);
            s.f[k] = f; s.s[k] = step; s.ext[k] = ext; s.l[k] = f + (ext - 1) * step + 1;
        }
    }
    // hazard-rich source for aliasing steps: the destination shifted by +-1..+-(lanes+1) along one axis
    // (same strides), or interleaved strides; falls back to decode_src
    void decode_alias_src(const Step &st, int base, const Sel<R> &dst, Sel<R> &s, uint32_t salt) const {
        uint64_t hh = mix2(((uint64_t)(st.a[base] ^ (st.a[base + 1] * 31u)) << 8) | salt, 0x5a17);
        if (hh % 8 == 0) { decode_src(st, base, dst, s, salt); return; }
        s = dst;
        int k = (hh >> 4) % 3 == 0 ? (int)((hh >> 8) % (uint64_t)R) : R - 1;      // mostly the last (vectorised) axis
        int N = dims[k], ext = dst.ext[k], step = dst.s[k];
        static const int deltas[] = {1, -1, 2, -2, 3, -3, 4, -4, 5, 8, -8, 7, 9, 16, -16, 17};
        int delta = deltas[(hh >> 16) % 16];
        if ((hh >> 24) % 6 == 0 && step >= 2) delta = (delta & 1) ? delta : delta + 1;   // interleaved: odd shift on a strided range
        int span = (ext - 1) * step;
        int f = dst.f[k] + delta;
        if (f < 0 || f + span > N - 1) f = dst.f[k] - delta;          // does not fit: try the other direction, then clip
        if (f < 0) f = 0; if (f + span > N - 1) f = N - 1 - span;
        s.f[k] = f; s.l[k] = f + span + 1;
    }
    // reversed-order source: same elements visited from the high end with a negative step (last must stay >= 0)
    void maybe_reverse(const Step &st, Sel<R> &s, uint32_t salt) const {
        if (R != 1) return;
        uint64_t hh = mix2(((uint64_t)st.a[A_S0 + 2] << 8) | salt, 0x4e6);
        if (hh % 4 != 0) return;
        int lo = s.f[0], hi = s.f[0] + (s.ext[0] - 1) * s.s[0], stp = s.s[0];
        if (lo - stp < 0) return;                       // the end bound lo-stp would be negative, i.e. mean something else
        s.f[0] = hi; s.s[0] = -stp; s.l[0] = lo - stp;
    }
    // apply form (pinned integer axis / all axis) to a selection; returns the library arguments
    void build_args(Sel<R> &s, int form, uint32_t enc, seq *q, int *fixi) const {
        int ia = form_int_axis(R, form), aa = form_all_axis(R, form);
        for (int k = 0; k < R; ++k) {
            if (k == ia) { s.ext[k] = 1; s.s[k] = 1; s.l[k] = s.f[k] + 1; fixi[k] = s.f[k]; }
            else fixi[k] = 0;
            if (k == aa) { s.f[k] = 0; s.s[k] = 1; s.ext[k] = dims[k]; s.l[k] = dims[k]; }
            int l = s.l[k], f = s.f[k];
            // documented end-relative encodings: last == -1 means N, a negative bound b means b+N+1 (for first and last alike)
            uint32_t e = (enc >> (2 * k)) & 3;
            if (e == 1 && l == dims[k]) l = -1; else if (e == 2) l = l - dims[k] - 1; else if (e == 3) { l = l - dims[k] - 1; f = f - dims[k] - 1; }
            q[k] = seq(f, l, s.s[k]);
        }
    }

    // ---------------------------------------------------------------- judging
    bool finish(StepCtx &cx, const Outcome &o, const char *family, const Sel<R> *dst, const char *what, const std::vector<char> *selmask = nullptr) {
        char k[96], d[200];
        cx.h->u64((uint64_t)o.kind); if (o.kind == 1) o.hash_into(*cx.h);
        if (o.allocs && cx.cnt) cx.cnt->bump("anomaly/allocation-inside-view-op (C07 matter)", o.allocs);
        if (o.kind == 1) {
            o.describe(d, sizeof d); snprintf(k, sizeof k, "fault/%s", family);
            cx.v->set(cx.si, k, cx.opname, "%s: %s raised %s", cx.opname, what, d); return false;
        }
        if (o.kind != 0) {   // exception from a legal operation (e.g. injected allocation failure): state unknown, stop judging this run
            if (cx.cnt) cx.cnt->bump(std::string("anomaly/exception-in-view-op/") + o.what());
            cx.info->kind = "aborted"; return false;
        }
        cx.h->bytes(A->data(), sizeof(T) * SZ);
        // A against the expected contents, distinguishing selected from unselected elements
        if (memcmp(A->data(), expA.data(), sizeof(T) * SZ) != 0) {
            static std::vector<char> insel; insel.assign(SZ, 0);
            if (dst) for (int q = 0, n = dst->size(); q < n; ++q) insel[dst->at(dims, q)] = 1;
            if (selmask) for (int i = 0; i < SZ; ++i) insel[i] = (*selmask)[i];
            int bad_in = -1, bad_out = -1;
            for (int i = 0; i < SZ; ++i) if (memcmp(&A->data()[i], &expA[i], sizeof(T)) != 0) { if (insel[i]) { if (bad_in < 0) bad_in = i; } else if (bad_out < 0) bad_out = i; }
            if (bad_out >= 0) { snprintf(k, sizeof k, "frame/%s", family);
                cx.v->set(cx.si, k, cx.opname, "%s: %s changed NON-selected element %d of A: got %.17g expected %.17g", cx.opname, what, bad_out, (double)A->data()[bad_out], (double)expA[bad_out]); }
            else { snprintf(k, sizeof k, "value/%s", family);
                cx.v->set(cx.si, k, cx.opname, "%s: %s selected element %d of A: got %.17g expected %.17g", cx.opname, what, bad_in, (double)A->data()[bad_in], (double)expA[bad_in]); }
            return false;
        }
        if (memcmp(B->data(), sB.data(), sizeof(T) * SZ) != 0 || memcmp(C->data(), sC.data(), sizeof(T) * SZ) != 0 || memcmp(F->data(), sF.data(), sizeof(T) * SZ) != 0 || memcmp(G->data(), sG.data(), (size_t)SZ) != 0) {
            snprintf(k, sizeof k, "stray-write/%s", family); cx.v->set(cx.si, k, cx.opname, "%s: %s modified another tensor", cx.opname, what); return false; }
        for (int s = 0; s < 4; ++s) { long off = g_arena.check_poison(s); if (off >= 0) { snprintf(k, sizeof k, "poison/%s", family);
                cx.v->set(cx.si, k, cx.opname, "%s: %s overwrote byte %ld of slot %d outside every tensor", cx.opname, what, off, s); return false; } }
        sA = expA;
        return true;
    }
    void describe_sel(char *b, size_t n, const Sel<R> &s) const {
        size_t o = 0; for (int k = 0; k < R && o < n; ++k) o += (size_t)snprintf(b + o, n - o, "%s%d:%d:%d", k ? "," : "", s.f[k], s.l[k], s.s[k]);
    }

    // ---------------------------------------------------------------- K_DYN_WRITE (C05)
    void dyn_write(const Step &st, StepCtx &cx) {
        int op = (int)(st.a[A_OP] % 5); uint32_t rk = st.a[A_RHS] % 10; int form = (int)(st.a[A_FORM] % MkView<R>::NFORMS);
        if (rk == 9 && (!PartEval<Ten>::available || op == 4 || VIEWSIM_MAP_PARENT)) rk = 1;       // rk 9: partial view op= X % Y
        if (rk == 6 && (!FullEval<Ten>::available || op == 4 || VIEWSIM_MAP_PARENT)) rk = 4;
        if (!DYN_EXPR_OK) rk = 0;
        if (rk >= 7 && R == 1) rk = 1;                                 // rank-mismatched right-hand sides exist for rank >= 2 only
        normalise(cx.si, op, false);
        Sel<R> d; decode_sel(st, A_D0, 9, d);
        if (rk >= 4) { form = 0; for (int k = 0; k < R; ++k) { d.f[k] = 0; d.s[k] = 1; d.ext[k] = dims[k]; d.l[k] = dims[k]; } }   // whole-tensor right-hand sides need the full range
        if (form != 0 && rk > 1 && rk < 7) rk = rk % 2;
        if (rk == 9) form = 0;
        if (op == 4 && (rk == 2 || rk == 3 || rk == 5)) rk = rk == 5 ? 4 : 1;            // divisors must stay powers of two
        Ten evref; if (rk == 6) evref = FullEval<Ten>::ref(*B, *C);
        if (op == 4 && rk == 8) rk = 7;
        int fn = d.size(), foff = (int)(st.a[A_S0 + 1] % (uint32_t)(SZ - fn + 1)); seq fq(foff, foff + fn);                     // values of B % C from the library's own evaluation
        seq q[4] = {seq(0, 1), seq(0, 1), seq(0, 1), seq(0, 1)}; int fixi[4] = {0, 0, 0, 0};
        build_args(d, form, st.a[A_X], q, fixi);
        Sel<R> s1, s2; decode_src(st, A_S0, d, s1, 1); decode_src(st, A_S0, d, s2, 2);
        maybe_reverse(st, s1, 1);
        seq q1[4] = {seq(0, 1), seq(0, 1), seq(0, 1), seq(0, 1)}, q2[4] = {seq(0, 1), seq(0, 1), seq(0, 1), seq(0, 1)}; for (int k = 0; k < R; ++k) { q1[k] = seq(s1.f[k], s1.l[k], s1.s[k]); q2[k] = seq(s2.f[k], s2.l[k], s2.s[k]); }
        T sc = op == 4 ? pow2val<T>(st.a[A_VAL]) : smallval<T>(st.a[A_VAL]);
        // model
        expA = sA; bool changed = false; Outcome o; bool handled = false;
        if (rk == 9) handled = PartEvalRun<Ten>::go(*this, op, st, o, d, q, fixi);
        if (!handled) for (int qi = 0, n = d.size(); qi < n; ++qi) {
            int di = d.at(dims, qi); T r;
            switch (rk) {
            case 0: r = sc; break;
            case 1: r = sB[s1.at(dims, qi)]; break;
            case 2: r = (T)(sB[s1.at(dims, qi)] * (T)2 + sC[s2.at(dims, qi)]); break;
            case 3: r = (st.a[A_VAL] & 1) ? (T)((T)7 - sB[s1.at(dims, qi)]) : (T)(sB[s1.at(dims, qi)] - sC[s2.at(dims, qi)]); break;
            case 4: r = sB[di]; break;
            case 6: r = evref.data()[di]; break;
            case 7: r = sF[foff + qi]; break;
            case 8: r = (T)(sF[foff + qi] * (T)2 + (T)1); break;
            default: r = (T)(sB[di] + sC[di] * (T)2); break;
            }
            expA[di] = apply_op<T>(op, sA[di], r); if (memcmp(&expA[di], &sA[di], sizeof(T))) changed = true;
        }
        if (handled) changed = memcmp(expA.data(), sA.data(), sizeof(T) * SZ) != 0;
        Par &a = *A; Ten &b = *B, &c = *C; Flat &fl = *F;
        if (!handled) o = window([&] {
            if (rk == 0) { do_assign(op, MkView<R>::mk(a, q, fixi, form), sc); return; }
            Gate<DYN_EXPR_OK>::run([&](auto &a) {
            switch (rk) {
            case 7: do_assign(op, MkView<R>::mk(a, q, fixi, form), fl(fq)); break;
            case 8: do_assign(op, MkView<R>::mk(a, q, fixi, form), fl(fq) * (T)2 + (T)1); break;
            case 0: do_assign(op, MkView<R>::mk(a, q, fixi, form), sc); break;
            case 1: do_assign(op, MkView<R>::mk(a, q, fixi, form), MkView<R>::mk(b, q1, fixi, 0)); break;
            case 2: do_assign(op, MkView<R>::mk(a, q, fixi, 0), MkView<R>::mk(b, q1, fixi, 0) * (T)2 + MkView<R>::mk(c, q2, fixi, 0)); break;
            case 3: if (st.a[A_VAL] & 1) do_assign(op, MkView<R>::mk(a, q, fixi, 0), (T)7 - MkView<R>::mk(b, q1, fixi, 0));      // scalar on the LEFT of a non-commutative operator
                    else do_assign(op, MkView<R>::mk(a, q, fixi, 0), MkView<R>::mk(b, q1, fixi, 0) - MkView<R>::mk(c, q2, fixi, 0)); break;
            case 4: do_assign(op, MkView<R>::mk(a, q, fixi, 0), b); break;
            case 6: Gate<!VIEWSIM_MAP_PARENT>::run([&](auto &aa) { FullEval<Ten>::go(op, aa, b, c); }, a); break;
            default: do_assign(op, MkView<R>::mk(a, q, fixi, 0), b + c * (T)2); break;
            }
            }, a);
        }, failalloc);
        char sd[80]; describe_sel(sd, sizeof sd, d);
        snprintf(cx.info->desc, sizeof cx.info->desc, "A(%s) form%d %s rhs%u", sd, form, OPNAME[op], rk);
        cx.info->nontrivial = changed && d.size() < SZ && d.size() > 0;
        cx.info->sig = mix2(mix2(((uint64_t)op << 8) | rk, (uint64_t)form), ((uint64_t)(d.ext[R - 1] % 16) << 8) | (uint64_t)(d.s[R - 1] * 4 + (R > 1 ? d.s[0] : 0)));
        if (cx.cnt) { cx.cnt->bump(std::string("probe/route-") + ((d.s[R - 1] == 1 && d.ext[R - 1] >= LANES) ? "vector-body" : (d.s[R - 1] == 1 ? "contiguous-shorter-than-vector" : "strided"))); cx.cnt->bump(std::string("mix/operator ") + OPNAME[op]); }
        finish(cx, o, "dyn_write", &d, cx.info->desc);
    }

    // ---------------------------------------------------------------- K_BOOL_WRITE (C05): G(slice) = comparison / logical expression, G a Tensor<bool>
    // judge G byte for byte (a bool is one byte holding 0 or 1), then everything else through finish() with A expected unchanged
    bool bool_finish(StepCtx &cx, const Outcome &o, const char *family, const Sel<R> &d, const char *what) {
        char k[96];
        if (o.kind == 0) {
            cx.h->bytes(G->data(), (size_t)SZ);
            const unsigned char *g = reinterpret_cast<const unsigned char *>(G->data());
            if (memcmp(g, expG.data(), (size_t)SZ) != 0) {
                static std::vector<char> insel; insel.assign(SZ, 0); for (int q = 0, n = d.size(); q < n; ++q) insel[d.at(dims, q)] = 1;
                int bad_in = -1, bad_out = -1; for (int i = 0; i < SZ; ++i) if (g[i] != expG[i]) { if (insel[i]) { if (bad_in < 0) bad_in = i; } else if (bad_out < 0) bad_out = i; }
                if (bad_out >= 0) { snprintf(k, sizeof k, "frame/%s", family); cx.v->set(cx.si, k, cx.opname, "%s: %s changed NON-selected element %d of G: got %d expected %d", cx.opname, what, bad_out, (int)g[bad_out], (int)expG[bad_out]); }
                else { snprintf(k, sizeof k, "value/%s", family); cx.v->set(cx.si, k, cx.opname, "%s: %s selected element %d of G: got %d expected %d", cx.opname, what, bad_in, (int)g[bad_in], (int)expG[bad_in]); }
                return false;
            }
        }
        expA = sA; std::vector<unsigned char> old = sG; sG = expG;
        if (!finish(cx, o, family, nullptr, what)) { sG = old; return false; }
        return true;
    }
    static bool cmp_model(uint32_t ck, T x, T y, T sc) {
        switch (ck) { case 0: return x < y; case 1: return x >= sc; case 2: return x == y; case 3: return !(x < y); case 4: return (x < y) && (x > sc); default: return x != y; }
    }
    void bool_write(const Step &st, StepCtx &cx) {
        uint32_t ck = st.a[A_RHS] % 6; int form = (int)(st.a[A_FORM] % MkView<R>::NFORMS);
        Sel<R> d; decode_sel(st, A_D0, 9, d);
        seq q[4] = {seq(0, 1), seq(0, 1), seq(0, 1), seq(0, 1)}; int fixi[4] = {0, 0, 0, 0};
        build_args(d, form, st.a[A_X], q, fixi);
        Sel<R> s1, s2; decode_src(st, A_S0, d, s1, 1); decode_src(st, A_S0, d, s2, 2); maybe_reverse(st, s1, 1);
        seq q1[4] = {seq(0, 1), seq(0, 1), seq(0, 1), seq(0, 1)}, q2[4] = {seq(0, 1), seq(0, 1), seq(0, 1), seq(0, 1)}; for (int k = 0; k < R; ++k) { q1[k] = seq(s1.f[k], s1.l[k], s1.s[k]); q2[k] = seq(s2.f[k], s2.l[k], s2.s[k]); }
        T sc = smallval<T>(st.a[A_VAL]);
        // B holds +-powers of two, C small integers: make equality reachable by comparing C against C as well
        const std::vector<T> &X = (st.a[A_VAL] & 16) ? sC : sB;
        expG = sG; bool changed = false;
        for (int qi = 0, n = d.size(); qi < n; ++qi) { int di = d.at(dims, qi); expG[di] = cmp_model(ck, X[s1.at(dims, qi)], sC[s2.at(dims, qi)], sc) ? 1 : 0; if (expG[di] != sG[di]) changed = true; }
        Ten &xb = (st.a[A_VAL] & 16) ? *C : *B; Ten &c = *C; BTen &g = *G; Outcome o;
        Gate<BOOL_OK>::run([&](auto &gg) {
            o = window([&] {
                switch (ck) {
                case 0: MkView<R>::mk(gg, q, fixi, form) = MkView<R>::mk(xb, q1, fixi, 0) < MkView<R>::mk(c, q2, fixi, 0); break;
                case 1: MkView<R>::mk(gg, q, fixi, form) = MkView<R>::mk(xb, q1, fixi, 0) >= sc; break;
                case 2: MkView<R>::mk(gg, q, fixi, form) = MkView<R>::mk(xb, q1, fixi, 0) == MkView<R>::mk(c, q2, fixi, 0); break;
                case 3: MkView<R>::mk(gg, q, fixi, form) = !(MkView<R>::mk(xb, q1, fixi, 0) < MkView<R>::mk(c, q2, fixi, 0)); break;
                case 4: MkView<R>::mk(gg, q, fixi, form) = (MkView<R>::mk(xb, q1, fixi, 0) < MkView<R>::mk(c, q2, fixi, 0)) && (MkView<R>::mk(xb, q1, fixi, 0) > sc); break;
                default: MkView<R>::mk(gg, q, fixi, form) = MkView<R>::mk(xb, q1, fixi, 0) != MkView<R>::mk(c, q2, fixi, 0); break;
                }
            }, failalloc);
        }, g);
        if (!BOOL_OK) expG = sG;
        char sd[80]; describe_sel(sd, sizeof sd, d);
        snprintf(cx.info->desc, sizeof cx.info->desc, "G(%s) form%d = cmp%u(%s(..), C(..))%s", sd, form, ck, (st.a[A_VAL] & 16) ? "C" : "B", BOOL_OK ? "" : " (no-op: form does not exist in this build)");
        cx.info->nontrivial = changed && d.size() < SZ && BOOL_OK;
        cx.info->sig = mix2(mix2(0xb001, ck), ((uint64_t)form << 8) | (uint64_t)(d.s[R - 1] * 4 + (d.ext[R - 1] % 4)));
        if (cx.cnt && BOOL_OK) cx.cnt->bump("probe/bool-destination comparison assignment");
        bool_finish(cx, o, "bool_write", d, cx.info->desc);
    }

    // ---------------------------------------------------------------- K_FLAT_WRITE (C05): F(1-D slice) op= g(B(n-d slice)), rank >= 2 universes.
    // The n-d source is consumed through its FLAT-index evaluator (eval<T>(i): a gather for non-contiguous selections), which a destination
    // of the source's own rank never calls. F is restored afterwards, so that it stays the constant power-of-two cell the other kinds rely on.
    void flat_write(const Step &st, StepCtx &cx) {
        int op = (int)(st.a[A_OP] % 5); uint32_t rk = st.a[A_RHS] % 3; if (op == 4) rk = 0;
        Sel<R> s1, s2; decode_sel(st, A_D0, 9, s1, (st.a[A_FORM] & 1) != 0); decode_src(st, A_S0, s1, s2, 2);
        seq q1[4] = {seq(0, 1), seq(0, 1), seq(0, 1), seq(0, 1)}, q2[4] = {seq(0, 1), seq(0, 1), seq(0, 1), seq(0, 1)}; int fixi[4] = {0, 0, 0, 0};
        for (int k = 0; k < R; ++k) { q1[k] = seq(s1.f[k], s1.l[k], s1.s[k]); q2[k] = seq(s2.f[k], s2.l[k], s2.s[k]); }
        const int n = s1.size(); int fstep = 1 + (int)(st.a[A_S0 + 2] % 2); if ((n - 1) * fstep >= SZ) fstep = 1;
        const int foff = (int)(st.a[A_S0 + 1] % (uint32_t)(SZ - (n - 1) * fstep)); seq fq(foff, foff + (n - 1) * fstep + 1, fstep);
        T cst = smallval<T>(st.a[A_VAL]);
        std::vector<T> sF0 = sF, expF = sF; std::vector<char> insel(SZ, 0); bool changed = false;
        for (int qi = 0; qi < n; ++qi) { int di = foff + qi * fstep; T x = sB[s1.at(dims, qi)];
            T r = rk == 0 ? x : (rk == 1 ? (T)(x * (T)2 + sC[s2.at(dims, qi)]) : (T)(cst - x));
            expF[di] = apply_op<T>(op, sF[di], r); insel[di] = 1; if (memcmp(&expF[di], &sF[di], sizeof(T))) changed = true; }
        Ten &b = *B, &c = *C; Flat &fl = *F;
        Outcome o = window([&] {
            switch (rk) {
            case 0: do_assign(op, fl(fq), MkView<R>::mk(b, q1, fixi, 0)); break;
            case 1: do_assign(op, fl(fq), MkView<R>::mk(b, q1, fixi, 0) * (T)2 + MkView<R>::mk(c, q2, fixi, 0)); break;
            default: do_assign(op, fl(fq), cst - MkView<R>::mk(b, q1, fixi, 0)); break;
            }
        }, failalloc);
        char ss[80]; describe_sel(ss, sizeof ss, s1);
        snprintf(cx.info->desc, sizeof cx.info->desc, "F(%d:%d:%d) %s g%u(B(%s)) [rank-%d source, flat evaluator]", foff, foff + (n - 1) * fstep + 1, fstep, OPNAME[op], rk, ss, R);
        cx.info->nontrivial = changed && n < SZ;
        cx.info->sig = mix2(mix2(0xf1a7, ((uint64_t)op << 8) | rk), ((uint64_t)(n % 16) << 8) | (uint64_t)(s1.s[R - 1] * 4 + fstep));
        if (cx.cnt) cx.cnt->bump(std::string("probe/flat evaluator of an n-d source: ") + ((fstep == 1 && n >= LANES) ? "vector body" : "scalar"));
        if (o.kind == 0) {
            cx.h->bytes(F->data(), sizeof(T) * SZ);
            if (memcmp(F->data(), expF.data(), sizeof(T) * SZ) != 0) {
                int bad_in = -1, bad_out = -1; for (int i = 0; i < SZ; ++i) if (memcmp(&F->data()[i], &expF[i], sizeof(T)) != 0) { if (insel[i]) { if (bad_in < 0) bad_in = i; } else if (bad_out < 0) bad_out = i; }
                if (bad_out >= 0) cx.v->set(cx.si, "frame/flat_write", cx.opname, "%s: %s changed NON-selected element %d of F: got %.17g expected %.17g", cx.opname, cx.info->desc, bad_out, (double)F->data()[bad_out], (double)expF[bad_out]);
                else cx.v->set(cx.si, "value/flat_write", cx.opname, "%s: %s selected element %d of F: got %.17g expected %.17g", cx.opname, cx.info->desc, bad_in, (double)F->data()[bad_in], (double)expF[bad_in]);
                for (int i = 0; i < SZ; ++i) F->data()[i] = sF0[i];
                return;
            }
            sF = expF;
        }
        expA = sA; finish(cx, o, "flat_write", nullptr, cx.info->desc);
        sF = sF0; for (int i = 0; i < SZ; ++i) F->data()[i] = sF0[i];
    }

    // ---------------------------------------------------------------- K_ELEM_WRITE (C05): A(i,j,..) op= v with negative indices
    template <size_t... I> T &elem(Par &a, const int *ix, std_ext::index_sequence<I...>) { return a(ix[I]...); }
    void elem_write(const Step &st, StepCtx &cx) {
        int op = (int)(st.a[A_OP] % 5); normalise(cx.si, op, false);
        int ix[R], pos[R], flat = 0;
        for (int k = 0; k < R; ++k) { pos[k] = (int)(st.a[A_D0 + k] % (uint32_t)dims[k]); ix[k] = ((st.a[A_X] >> k) & 1) ? pos[k] - dims[k] : pos[k]; flat = flat * dims[k] + pos[k]; }
        T sc = op == 4 ? pow2val<T>(st.a[A_VAL]) : smallval<T>(st.a[A_VAL]);
        expA = sA; expA[flat] = apply_op<T>(op, sA[flat], sc);
        Par &a = *A;
        Outcome o = window([&] { T &e = elem(a, ix, std_ext::make_index_sequence<(size_t)R>{});
            switch (op) { case 0: e = sc; break; case 1: e += sc; break; case 2: e -= sc; break; case 3: e *= sc; break; default: e /= sc; } }, failalloc);
        Sel<R> d; for (int k = 0; k < R; ++k) { d.f[k] = pos[k]; d.s[k] = 1; d.ext[k] = 1; d.l[k] = pos[k] + 1; }
        snprintf(cx.info->desc, sizeof cx.info->desc, "A(elem %d) %s scalar", flat, OPNAME[op]);
        cx.info->nontrivial = memcmp(&expA[flat], &sA[flat], sizeof(T)) != 0 && SZ > 1;
        cx.info->sig = mix2((uint64_t)op, (uint64_t)((st.a[A_X] & ((1u << R) - 1)) + 100));
        finish(cx, o, "elem_write", &d, cx.info->desc);
    }

    // ---------------------------------------------------------------- fault inside a history: a buggy client hands scalar indexing an out-of-range
    // coordinate (checks-on builds only; elsewhere the step is a no-op). Whatever the library does with it -- the C07 check judges whether it
    // raises the promised error -- the history must go on undisturbed: A, the other tensors and all surrounding memory unchanged, no signal.
    void bad_elem(const Step &st, StepCtx &cx) {
        expA = sA; Outcome o;
#if FASTOR_BOUNDS_CHECK
        int ix[R]; for (int k = 0; k < R; ++k) ix[k] = (int)(st.a[A_D0 + k] % (uint32_t)dims[k]);
        int ax = (int)(st.a[A_FORM] % (uint32_t)R), over = 1 + (int)(st.a[A_X] % 3);
        ix[ax] = (st.a[A_RHS] & 2) ? dims[ax] + over - 1 : -dims[ax] - over;
        T sc = smallval<T>(st.a[A_VAL]); bool wr = st.a[A_RHS] & 1; T rd = 0;
        Par &a = *A;
        o = window([&] { if (wr) elem(a, ix, std_ext::make_index_sequence<(size_t)R>{}) = sc; else rd = elem(a, ix, std_ext::make_index_sequence<(size_t)R>{}); }, false);
        if (cx.cnt) { cx.cnt->bump("fault/bad-index-delivered-inside-history"); if (o.kind == 2) cx.cnt->bump("probe/bad-index-exception-observed"); }
        if (o.kind == 2) o.kind = 0;          // the promised error: the operation is over, the history continues
        o.allocs = 0;                         // (the exception object's own allocation is outside every property)
        snprintf(cx.info->desc, sizeof cx.info->desc, "A(bad index on axis %d) %s", ax, wr ? "write" : "read");
        cx.info->nontrivial = true;
#else
        snprintf(cx.info->desc, sizeof cx.info->desc, "bad index (no-op: runtime checks are off in this build)");
#endif
        cx.info->sig = mix2(0xbad, (uint64_t)(st.a[A_RHS] & 3));
        finish(cx, o, "bad_elem", nullptr, cx.info->desc);
    }

    // ---------------------------------------------------------------- aliasing model helpers (C18)
    // expA := snapshot semantics; naive := in-order element loop; returns whether they differ (real hazard)
    template <class RhsFn, class RhsFnLive> bool alias_model(int op, const Sel<R> &d, RhsFn snap_rhs, RhsFnLive live_rhs) {
        expA = sA; naive = sA; int n = d.size();
        for (int qi = 0; qi < n; ++qi) { int di = d.at(dims, qi); expA[di] = apply_op<T>(op, sA[di], snap_rhs(sA, qi)); }
        for (int qi = 0; qi < n; ++qi) { int di = d.at(dims, qi); naive[di] = apply_op<T>(op, naive[di], live_rhs(naive, qi)); }
        return memcmp(expA.data(), naive.data(), sizeof(T) * SZ) != 0;
    }
    static const char *overlap_class(bool coincident, bool hazard) { return coincident ? "coincident" : (hazard ? "real-hazard" : "benign-overlap-or-disjoint"); }

    // ---------------------------------------------------------------- K_DYN_ALIAS (C18)
    void dyn_alias(const Step &st, StepCtx &cx) {
        int op = (int)(st.a[A_OP] % 5); uint32_t fk = st.a[A_RHS] % 5; bool coincident = (st.a[A_FORM] % 4) == 0;       // fk 4: c - src (scalar on the left)
        // map parents (rank >= 3 only): view-to-view copy assignment of map views and rank-1/2 noalias() do not compile on the pinned tree
        if (VIEWSIM_MAP_PARENT) { if (op == 4) op = 1 + (int)(st.a[A_VAL] % 3); if (fk == 0) fk = 1 + st.a[A_VAL] % 4; }
        static constexpr bool DYN_ALIAS_OK = !VIEWSIM_MAP_PARENT || R >= 3;
        normalise(cx.si, op, true);
        Sel<R> d; decode_sel(st, A_D0, 9, d, (st.a[A_FORM] / 4) % 4 != 0);
        seq q[4] = {seq(0, 1), seq(0, 1), seq(0, 1), seq(0, 1)}; int fixi[4] = {0, 0, 0, 0};
        build_args(d, 0, st.a[A_X], q, fixi);
        Sel<R> s1, s2;
        if (coincident) { s1 = d; s2 = d; } else { decode_alias_src(st, A_S0, d, s1, 1); decode_alias_src(st, A_S0, d, s2, 2); maybe_reverse(st, s1, 1); }
        if (op == 4 && fk != 0) fk = 0;                        // divisors: the source elements themselves (powers of two)
        if (op == 3 && fk == 3) fk = 1;
        seq q1[4] = {seq(0, 1), seq(0, 1), seq(0, 1), seq(0, 1)}, q2[4] = {seq(0, 1), seq(0, 1), seq(0, 1), seq(0, 1)}; for (int k = 0; k < R; ++k) { q1[k] = seq(s1.f[k], s1.l[k], s1.s[k]); q2[k] = seq(s2.f[k], s2.l[k], s2.s[k]); }
        T cst = smallval<T>(st.a[A_VAL]);
        auto rhs = [&](const std::vector<T> &src, int qi) -> T {
            T x = src[s1.at(dims, qi)];
            switch (fk) { case 0: return x; case 1: return (T)(x + cst); case 2: return (T)((T)2 * x - cst); case 4: return (T)(cst - x); default: return (T)(x + src[s2.at(dims, qi)]); }
        };
        bool hazard = alias_model(op, d, rhs, rhs);
        Par &par = *A;
        Outcome o = window([&] { Gate<DYN_ALIAS_OK>::run([&](auto &a) {
            if (fk == 4) { if (coincident) do_assign(op, MkView<R>::mk(a, q, fixi, 0), cst - MkView<R>::mk(a, q1, fixi, 0)); else do_assign(op, MkView<R>::mk(a, q, fixi, 0).noalias(), cst - MkView<R>::mk(a, q1, fixi, 0)); }
            else if (coincident) {
                switch (fk) {
#if !VIEWSIM_MAP_PARENT
                case 0: do_assign(op, MkView<R>::mk(a, q, fixi, 0), MkView<R>::mk(a, q1, fixi, 0)); break;
#endif
                case 1: do_assign(op, MkView<R>::mk(a, q, fixi, 0), MkView<R>::mk(a, q1, fixi, 0) + cst); break;
                case 2: do_assign(op, MkView<R>::mk(a, q, fixi, 0), (T)2 * MkView<R>::mk(a, q1, fixi, 0) - cst); break;
                default: do_assign(op, MkView<R>::mk(a, q, fixi, 0), MkView<R>::mk(a, q1, fixi, 0) + MkView<R>::mk(a, q2, fixi, 0)); break;
                }
            } else {
                switch (fk) {
#if !VIEWSIM_MAP_PARENT
                case 0: do_assign(op, MkView<R>::mk(a, q, fixi, 0).noalias(), MkView<R>::mk(a, q1, fixi, 0)); break;
#endif
                case 1: do_assign(op, MkView<R>::mk(a, q, fixi, 0).noalias(), MkView<R>::mk(a, q1, fixi, 0) + cst); break;
                case 2: do_assign(op, MkView<R>::mk(a, q, fixi, 0).noalias(), (T)2 * MkView<R>::mk(a, q1, fixi, 0) - cst); break;
                default: do_assign(op, MkView<R>::mk(a, q, fixi, 0).noalias(), MkView<R>::mk(a, q1, fixi, 0) + MkView<R>::mk(a, q2, fixi, 0)); break;
                }
            }
        }, par); }, failalloc);
        char sd[80], ss[80]; describe_sel(sd, sizeof sd, d); describe_sel(ss, sizeof ss, s1);
        snprintf(cx.info->desc, sizeof cx.info->desc, "A(%s)%s %s f%u(A(%s))", sd, coincident ? "" : ".noalias()", OPNAME[op], fk, ss);
        cx.info->nontrivial = hazard;
        int shift = s1.f[R - 1] - d.f[R - 1];
        cx.info->sig = mix2(mix2(((uint64_t)op << 8) | fk, coincident ? 1 : 0), ((uint64_t)(uint32_t)(shift + 64) << 16) | (uint64_t)(d.s[R - 1] * 16 + s1.s[R - 1] * 4) | ((uint64_t)(d.ext[R - 1] % 16) << 32));
        if (cx.cnt) cx.cnt->bump(std::string("probe/dyn-view overlap ") + overlap_class(coincident, hazard));
        finish(cx, o, "dyn_alias", &d, cx.info->desc);
    }

    // ---------------------------------------------------------------- long-lived handles (C18): the sticky flag lives across steps
    View *hview(int i) { return reinterpret_cast<View *>(hd[i].store); }
    void h_create(const Step &st, StepCtx &cx) {
#if !VIEWSIM_MAP_PARENT
        int i = (int)(st.a[A_FORM] % NHANDLES);
        Sel<R> d; decode_sel(st, A_D0, 9, d, (st.a[A_D0] >> 3) % 4 != 0);
        seq q[4] = {seq(0, 1), seq(0, 1), seq(0, 1), seq(0, 1)}; int fixi[4] = {0, 0, 0, 0};
        build_args(d, 0, st.a[A_X], q, fixi);
        new (hd[i].store) View(MkView<R>::mk(*A, q, fixi, 0));
        hd[i].live = true; hd[i].armed = false; hd[i].sel = d;
        expA = sA; Outcome o;
        char sd[80]; describe_sel(sd, sizeof sd, d);
        snprintf(cx.info->desc, sizeof cx.info->desc, "h%d = A(%s)", i, sd);
        cx.info->sig = mix2(0x77, (uint64_t)i);
        finish(cx, o, "handle", nullptr, cx.info->desc);
#endif
    }
    void h_noalias(const Step &st, StepCtx &cx) {
#if !VIEWSIM_MAP_PARENT
        int i = (int)(st.a[A_FORM] % NHANDLES);
        expA = sA; Outcome o;
        if (hd[i].live) { View *v = hview(i); o = window([&] { v->noalias(); }, false); hd[i].armed = true; if (cx.cnt) cx.cnt->bump("fault/noalias-armed-on-long-lived-handle"); }
        snprintf(cx.info->desc, sizeof cx.info->desc, "h%d.noalias()%s", i, hd[i].live ? "" : " (dead handle: no-op)");
        cx.info->sig = mix2(0x78, (uint64_t)i);
        finish(cx, o, "handle", nullptr, cx.info->desc);
#endif
    }
    void h_assign(const Step &st, StepCtx &cx) {
#if !VIEWSIM_MAP_PARENT
        int i = (int)(st.a[A_FORM] % NHANDLES);
        int op = (int)(st.a[A_OP] % 5); uint32_t fk = st.a[A_RHS] % 3;
        if (!hd[i].live) { expA = sA; Outcome o; snprintf(cx.info->desc, sizeof cx.info->desc, "h%d assign (dead handle: no-op)", i); cx.info->sig = mix2(0x79, 9); finish(cx, o, "handle", nullptr, cx.info->desc); return; }
        normalise(cx.si, op, true);
        Sel<R> d = hd[i].sel, s1;
        // the model of the sticky flag: armed by noalias(), disarmed by the next assignment.
        // An unarmed handle may only be given a coincident source (partial overlap without noalias() is undefined by the property).
        bool armed = hd[i].armed;
        if (armed) decode_alias_src(st, A_S0, d, s1, 1); else s1 = d;
        if (op == 4) fk = 0;
        seq q1[4] = {seq(0, 1), seq(0, 1), seq(0, 1), seq(0, 1)}; for (int k = 0; k < R; ++k) q1[k] = seq(s1.f[k], s1.l[k], s1.s[k]);
        int fixi[4] = {0, 0, 0, 0};
        T cst = smallval<T>(st.a[A_VAL]);
        auto rhs = [&](const std::vector<T> &src, int qi) -> T { T x = src[s1.at(dims, qi)]; switch (fk) { case 0: return x; case 1: return (T)(x + cst); default: return (T)((T)2 * x - cst); } };
        bool hazard = alias_model(op, d, rhs, rhs);
        Ten &a = *A; View *v = hview(i);
        Outcome o = window([&] {
            switch (fk) {
            case 0: do_assign(op, *v, MkView<R>::mk(a, q1, fixi, 0)); break;
            case 1: do_assign(op, *v, MkView<R>::mk(a, q1, fixi, 0) + cst); break;
            default: do_assign(op, *v, (T)2 * MkView<R>::mk(a, q1, fixi, 0) - cst); break;
            }
        }, failalloc);
        hd[i].armed = false;
        char sd[80], ss[80]; describe_sel(sd, sizeof sd, d); describe_sel(ss, sizeof ss, s1);
        snprintf(cx.info->desc, sizeof cx.info->desc, "h%d[A(%s),%s] %s f%u(A(%s))", i, sd, armed ? "armed" : "unarmed", OPNAME[op], fk, ss);
        cx.info->nontrivial = hazard;
        cx.info->sig = mix2(mix2(((uint64_t)op << 8) | fk, armed ? 3 : 2), (uint64_t)(uint32_t)(s1.f[R - 1] - d.f[R - 1] + 64));
        if (cx.cnt) { cx.cnt->bump(std::string("probe/handle assign ") + (armed ? "armed " : "unarmed ") + overlap_class(!armed, hazard)); }
        finish(cx, o, "handle_assign", &d, cx.info->desc);
#endif
    }

    // ---------------------------------------------------------------- dispatch
    void step(const char *prop, int si, const Step &st, uint32_t kind, Verdict &v, Counters *cnt, StepInfo &info, Hash &h, FILE *log) override;
    // rank-1 only kinds are provided by a helper specialised on rank
    void idx_alias(const Step &st, StepCtx &cx);
    void mask_alias(const Step &st, StepCtx &cx);
    void diag_coinc(const Step &st, StepCtx &cx);
};

} // namespace viewsim
#include "universe_extra.h"
#endif
