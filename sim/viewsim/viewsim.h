// viewsim: the C05 / C18 world. Cells (parent tensors) live in the guarded, poisoned arena;
// every step is a slice write (C05) or an overlapping slice assignment (C18) and is checked
// immediately against a std::vector shadow updated by index arithmetic written from the
// property statements.
#ifndef VIEWSIM_H
#define VIEWSIM_H
#include "../core/fsim.h"
#include <Fastor/Fastor.h>
#include <array>
#include <cmath>

namespace viewsim {
using namespace fsim;
using namespace Fastor;

enum Prop : uint32_t { P_C05 = 1, P_C18 = 2 };

// ------------------------------------------------------------------ step argument layout (all modulo their domain)
enum { A_OP = 0, A_RHS = 1, A_VAL = 2, A_FORM = 3, A_D0 = 4 /* dst: 3 per axis (first, count, step|slack|enc) -> 4..12 (3 axes) */, A_S0 = 10 /* src uses 10..13 */, A_X = 13 };
// hdr layout
enum { H_UNI = 0, H_SIDE_A = 1, H_SIDE_B = 2, H_POISON = 3, H_DATA = 4, H_FAILALLOC = 5 };

template <size_t... D> struct prod_;
template <> struct prod_<> { static constexpr size_t value = 1; };
template <size_t A, size_t... D> struct prod_<A, D...> { static constexpr size_t value = A * prod_<D...>::value; };

// ------------------------------------------------------------------ run-time selection (normalised, positive)
template <int R> struct Sel {
    int f[R], s[R], ext[R];     // element j on axis k is at f + j*s
    int l[R];                   // the 'last' handed to the library (before encoding)
    int size() const { int n = 1; for (int k = 0; k < R; ++k) n *= ext[k]; return n; }
    // flat parent index of selection element q (row-major over ext)
    int at(const int (&dims)[R], int q) const {
        int idx[R]; for (int k = R - 1; k >= 0; --k) { idx[k] = q % ext[k]; q /= ext[k]; }
        int flat = 0; for (int k = 0; k < R; ++k) flat = flat * dims[k] + (f[k] + idx[k] * s[k]);
        return flat;
    }
    bool full(const int (&dims)[R]) const { for (int k = 0; k < R; ++k) if (f[k] != 0 || s[k] != 1 || ext[k] != dims[k]) return false; return true; }
    bool same(const Sel &o) const { for (int k = 0; k < R; ++k) if (f[k] != o.f[k] || s[k] != o.s[k] || ext[k] != o.ext[k]) return false; return true; }
};

// value algebra of the five operators, in the element type
template <class T> inline T apply_op(int op, T a, T b) {
    // (an integer zero divisor can only arise in the "naive in-order loop" used by the hazard probe, never in the expected result)
    switch (op) { case 0: return b; case 1: return (T)(a + b); case 2: return (T)(a - b); case 3: return (T)(a * b); default: return (std::is_integral<T>::value && b == (T)0) ? (T)0 : (T)(a / b); }
}
template <class D, class Rh> inline void do_assign(int op, D &&d, const Rh &r) {
    switch (op) { case 0: d = r; break; case 1: d += r; break; case 2: d -= r; break; case 3: d *= r; break; default: d /= r; }
}
static const char *const OPNAME[5] = {"=", "+=", "-=", "*=", "/="};

template <class T> inline T pow2val(uint64_t h) { int k = (int)(h % 4); T v = (T)(1 << k); return (h >> 8) & 1 ? (T)(-v) : v; }
template <class T> inline T smallval(uint64_t h) { int v = (int)(h % 6) + 1; return (h >> 8) & 1 ? (T)(-v) : (T)v; }

// ------------------------------------------------------------------ universe interface
struct StepInfo {
    bool nontrivial = false; uint64_t sig = 0;
    const char *kind = ""; char desc[200] = {0};
};
struct UniverseBase {
    virtual ~UniverseBase() {}
    virtual const char *name() const = 0;
    // construct cells in the arena
    virtual void setup(const Plan &p) = 0;
    // executes one step incl. model update and comparison; fills verdict on violation
    virtual void step(const char *prop, int si, const Step &st, uint32_t kind, Verdict &v, Counters *cnt, StepInfo &info, Hash &h, FILE *log) = 0;
};
struct OpDesc { std::string name; const char *family; uint32_t universe; uint32_t kind; uint32_t props; };
struct Registry {
    std::vector<OpDesc> ops;
    std::vector<UniverseBase *(*)()> factories;
    std::vector<std::string> uni_names;
    std::vector<std::vector<uint32_t>> uni_ops;     // op indices per universe
};
typedef void (*RegFn)(Registry &);

} // namespace viewsim
#endif
