// viewsim world: plan generation and execution for C05 (slice writes) and C18 (aliasing with noalias()).
#include "viewsim.h"
#include "shards.inc"     // generated: SHARD_FNS[]

namespace viewsim {

struct ViewWorld : World {
    Registry reg;
    std::vector<UniverseBase *> inst;
    ViewWorld() {
        sim_name = "viewsim";
        for (RegFn f : SHARD_FNS) f(reg);
        inst.assign(reg.factories.size(), nullptr);
    }
    uint32_t n_ops() const override { return (uint32_t)reg.ops.size(); }
    const char *op_name(uint32_t op) const override { return reg.ops[op % reg.ops.size()].name.c_str(); }
    bool arg_shrinkable(uint32_t) const override { return true; }
    static uint32_t propbit(const char *prop) { return !strcmp(prop, "C18") ? P_C18 : P_C05; }

    void gen_plan(const char *prop, int, uint64_t seed, uint64_t index, Plan &p) override {
        p = Plan(); Rng r(mix2(seed, index)); uint32_t pb = propbit(prop);
        uint32_t u = r.below((uint32_t)reg.uni_ops.size());
        std::vector<uint32_t> cand;
        for (uint32_t oi : reg.uni_ops[u]) if (reg.ops[oi].props & pb) { cand.push_back(oi);
            // run-time-ranged kinds cover far more cases per catalogue entry than one compile-time pair: weight them up
            uint32_t k = reg.ops[oi].kind; if (k == 0 || k == 2 || k == 6 || k == 7) for (int rep = 0; rep < 4; ++rep) cand.push_back(oi); }
        if (cand.empty()) return;
        p.hdr[H_UNI] = u;
        uint32_t sb = r.below(4);
        p.hdr[H_SIDE_A] = sb == 0 ? MIDDLE : (r.below(2) ? BACK : FRONT);
        p.hdr[H_SIDE_B] = r.below(3);
        p.hdr[H_POISON] = r.below(NPOISON); p.hdr[H_DATA] = r.below(100000); p.hdr[H_FAILALLOC] = r.below(8) == 0;
        // swarm: this run's operator mix, focus ops, step count
        uint32_t nsteps = 1 + r.below(pb == P_C05 ? 12 : 10);
        int fixed_operator = r.below(3) == 0 ? (int)r.below(5) : -1;
        std::vector<uint32_t> focus; uint32_t nf = 1 + r.below(3); for (uint32_t i = 0; i < nf; ++i) focus.push_back(cand[r.below((uint32_t)cand.size())]);
        std::vector<uint32_t> hc, hn, ha;
        for (uint32_t oi : cand) { if (reg.ops[oi].kind == 3) hc.push_back(oi); if (reg.ops[oi].kind == 4) hn.push_back(oi); if (reg.ops[oi].kind == 5) ha.push_back(oi); }
        auto fill = [&](Step &s) {
            for (uint32_t &a : s.a) a = r.u32() >> 4;
            s.a[A_OP] = fixed_operator >= 0 ? (uint32_t)fixed_operator : r.below(5);
            s.a[A_X] = r.below(3) == 0 ? r.below(64) : 0;          // last-relative encodings in a third of the steps
        };
        while (p.steps.size() < nsteps) {
            if (!hc.empty() && r.below(10) == 0) {
                // handle script: create, then arm/assign in a seed-chosen pattern on ONE view object
                uint32_t h = r.below(3); Step s; s.op = hc[0]; fill(s); s.a[A_FORM] = h; p.steps.push_back(s);
                uint32_t reps = 1 + r.below(4);
                for (uint32_t k = 0; k < reps; ++k) {
                    if (r.below(4) != 0) { Step n; n.op = hn[0]; fill(n); n.a[A_FORM] = h; p.steps.push_back(n); }
                    Step a; a.op = ha[0]; fill(a); a.a[A_FORM] = h; p.steps.push_back(a);
                }
                continue;
            }
            Step s; s.op = r.below(3) ? focus[r.below((uint32_t)focus.size())] : cand[r.below((uint32_t)cand.size())];
            fill(s); p.steps.push_back(s);
        }
    }

    RunResult exec_plan(const char *prop, const Plan &p, Counters *cnt, FILE *log) override {
        RunResult rr; Hash h; if (p.steps.empty()) { rr.hash = h.h; return rr; }
        uint32_t u = reg.ops[p.steps[0].op % reg.ops.size()].universe;
        if (!inst[u]) inst[u] = reg.factories[u]();
        UniverseBase &uni = *inst[u];
        uni.setup(p);
        h.str(uni.name());
        uint64_t sigs[3] = {0, 0, 0};
        if (cnt) {
            const char *sd[3] = {"middle", "back-flush", "front-flush"};
            cnt->bump(std::string("fault/destination-placement-") + sd[p.hdr[H_SIDE_A] % 3]);
            { char b[32]; snprintf(b, sizeof b, "fault/poison-%u", p.hdr[H_POISON] % NPOISON); cnt->bump(b); }
            if (p.hdr[H_FAILALLOC] & 1) cnt->bump("fault/alloc-failure-armed-runs");
        }
        for (size_t si = 0; si < p.steps.size(); ++si) {
            const Step &st = p.steps[si]; const OpDesc &od = reg.ops[st.op % reg.ops.size()];
            if (od.universe != u) continue;                       // foreign step (cannot come from the generator)
            StepInfo info;
            h.str(od.name.c_str()); for (uint32_t a : st.a) h.u64(a);
            uni.step(prop, (int)si, st, od.kind, rr.v, cnt, info, h, log);
            if (rr.v.bad) snprintf(rr.v.op, sizeof rr.v.op, "%s", od.name.c_str());
            ++rr.steps;
            if (log) fprintf(log, "step %zu %s :: %s%s\n", si, od.name.c_str(), info.desc, rr.v.bad ? "  <-- VIOLATION" : "");
            if (cnt) {
                cnt->bump("steps"); cnt->bump(std::string("kind/") + info.kind);
                uint64_t sg = mix2(mix2(st.op % reg.ops.size(), info.sig), p.hdr[H_SIDE_A] % 3);
                cnt->sig_all.insert(sg); if (info.nontrivial) { cnt->sig_nontrivial.insert(sg); cnt->bump(std::string("nontrivial/") + info.kind); }
                sigs[0] = sigs[1]; sigs[1] = sigs[2]; sigs[2] = sg; cnt->seq3.insert(mix2(mix2(sigs[0], sigs[1]), sigs[2]));
            }
            if (rr.v.bad || !strcmp(info.kind, "aborted")) break;
        }
        rr.hash = h.h;
        return rr;
    }
};

} // namespace viewsim

namespace fsim { World *make_world() { return new viewsim::ViewWorld(); } }
