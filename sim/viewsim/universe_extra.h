// viewsim: rank-specific step kinds (index-tensor, mask and diagonal views), fixed-view op
// templates and the step dispatcher.
#ifndef VIEWSIM_UNIVERSE_EXTRA_H
#define VIEWSIM_UNIVERSE_EXTRA_H

namespace viewsim {

// ---------------------------------------------------------------- index-tensor and boolean-mask views (rank 1 and 2)
// For a rank-2 parent the index tensor is itself rank 2 and holds FLAT indices into the parent.
template <class U, int R = U::R> struct IdxTypes { enum { available = 0 }; };
template <class T, size_t N> struct IdxTypes<Uni<T, N>, 1> {
    enum { available = 1 };
    using Part = Tensor<int, (N >= 2 ? (N + 1) / 2 : 1)>; using PartU = Tensor<size_t, (N >= 2 ? (N + 1) / 2 : 1)>;
    using Full = Tensor<int, N>; using Mask = Tensor<bool, N>;
};
template <class T, size_t M, size_t N> struct IdxTypes<Uni<T, M, N>, 2> {
    enum { available = 1 };
    using Part = Tensor<int, M, (N + 1) / 2>; using PartU = Tensor<size_t, M, (N + 1) / 2>;
    using Full = Tensor<int, M, N>; using Mask = Tensor<bool, M, N>;
};
template <class U, bool Av = IdxTypes<U>::available && !VIEWSIM_MAP_PARENT> struct IdxOps {
    static void idx(U &, const Step &, StepCtx &) {}
    static void mask(U &, const Step &, StepCtx &) {}
};
template <class U> struct IdxOps<U, true> {
    using T = typename U::Ten::scalar_type;
    using Part = typename IdxTypes<U>::Part; using PartU = typename IdxTypes<U>::PartU; using Full = typename IdxTypes<U>::Full; using Mask = typename IdxTypes<U>::Mask;
    static constexpr int N = U::SZ;
    static constexpr int K = (int)Part::size();
    // duplicate-free index vector: start + i*stride (mod N), stride coprime to N
    static int coprime_stride(uint32_t a) { for (int s = 1 + (int)(a % (uint32_t)N);; s = s % N + 1) { int x = s, y = N; while (y) { int t = x % y; x = y; y = t; } if (x == 1) return s; } }
    static void idx(U &u, const Step &st, StepCtx &cx) {
        int op = (int)(st.a[A_OP] % 5); uint32_t fk = st.a[A_RHS] % 4; bool coincident = (st.a[A_FORM] % 4) == 0;
        u.normalise(cx.si, op, true);
        Part it1, it2; PartU it2u;
        int st1 = coprime_stride(st.a[A_D0]), o1 = (int)(st.a[A_D0 + 1] % (uint32_t)N);
        for (int i = 0; i < K; ++i) it1.data()[i] = (o1 + i * st1) % N;
        // source indices: the destination shifted (hazard-rich) or arbitrary (repeats allowed on the read side)
        int shift = 1 + (int)(st.a[A_S0 + 1] % 4); bool shifted = (st.a[A_S0 + 2] % 3) != 0;
        for (int i = 0; i < K; ++i) { it2.data()[i] = coincident ? it1.data()[i] : (shifted ? (it1.data()[i] + N - shift * st1 % N) % N : (int)(mix2(st.a[A_S0], (uint64_t)i) % (uint64_t)N)); it2u.data()[i] = (size_t)it2.data()[i]; }
        if (op == 4) fk = 0;
        if (coincident && fk == 3) fk = 0;
        T cst = smallval<T>(st.a[A_VAL]);
        u.expA = u.sA; u.naive = u.sA;
        auto f = [&](T x) -> T { switch (fk) { case 1: return (T)(x + cst); case 2: return (T)((T)2 * x - cst); default: return x; } };
        for (int i = 0; i < K; ++i) u.expA[it1.data()[i]] = apply_op<T>(op, u.sA[it1.data()[i]], f(u.sA[it2.data()[i]]));
        for (int i = 0; i < K; ++i) u.naive[it1.data()[i]] = apply_op<T>(op, u.naive[it1.data()[i]], f(u.naive[it2.data()[i]]));
        bool hazard = memcmp(u.expA.data(), u.naive.data(), sizeof(T) * N) != 0;
        auto &a = *u.A;
        Outcome o = window([&] {
            if (coincident) { switch (fk) { case 0: do_assign(op, a(it1), a(it2)); break; case 1: do_assign(op, a(it1), a(it2) + cst); break; default: do_assign(op, a(it1), (T)2 * a(it2) - cst); } }
            else { switch (fk) { case 0: do_assign(op, a(it1).noalias(), a(it2)); break; case 1: do_assign(op, a(it1).noalias(), a(it2) + cst); break; case 2: do_assign(op, a(it1).noalias(), (T)2 * a(it2) - cst); break;
                                 default: do_assign(op, a(it1).noalias(), a(it2u)); } }      // source through an index tensor of another integer type
        }, u.failalloc);
        snprintf(cx.info->desc, sizeof cx.info->desc, "A(idx start %d stride %d)%s %s f%u(A(idx2 %s))", o1, st1, coincident ? "" : ".noalias()", OPNAME[op], fk, coincident ? "same" : (shifted ? "shifted" : "random"));
        cx.info->nontrivial = hazard;
        cx.info->sig = mix2(mix2(((uint64_t)op << 8) | fk, coincident ? 5 : 4), (uint64_t)st1 * 8 + (shifted ? (uint64_t)shift : 0));
        if (cx.cnt) cx.cnt->bump(std::string("probe/index-view overlap ") + U::overlap_class(coincident, hazard));
        std::vector<char> sm(N, 0); for (int i = 0; i < K; ++i) sm[it1.data()[i]] = 1;
        u.finish(cx, o, "idx_alias", nullptr, cx.info->desc, &sm);
    }
    // boolean-mask destination; the hazardous source is a full-size index view of the same parent (permutation / rotation)
    static void mask(U &u, const Step &st, StepCtx &cx) {
        int op = (int)(st.a[A_OP] % 5); bool coincident = (st.a[A_FORM] % 4) == 0; uint32_t fk = st.a[A_RHS] % 2;
        u.normalise(cx.si, op, true);
        Mask m; Full it;
        for (int i = 0; i < N; ++i) m.data()[i] = (mix2(st.a[A_D0], (uint64_t)i) & 3) != 0;
        int mode = (int)(st.a[A_S0] % 3), rot = 1 + (int)(st.a[A_S0 + 1] % (uint32_t)(N > 1 ? N - 1 : 1));
        for (int i = 0; i < N; ++i) it.data()[i] = coincident ? i : (mode == 0 ? N - 1 - i : (mode == 1 ? (i + rot) % N : (i + N - rot % N) % N));
        if (op == 4) fk = 0;
        T cst = smallval<T>(st.a[A_VAL]);
        auto f = [&](T x) -> T { return fk ? (T)(x + cst) : x; };
        u.expA = u.sA; u.naive = u.sA;
        for (int i = 0; i < N; ++i) if (m.data()[i]) u.expA[i] = apply_op<T>(op, u.sA[i], f(u.sA[it.data()[i]]));
        for (int i = 0; i < N; ++i) if (m.data()[i]) u.naive[i] = apply_op<T>(op, u.naive[i], f(u.naive[it.data()[i]]));
        bool hazard = memcmp(u.expA.data(), u.naive.data(), sizeof(T) * N) != 0;
        auto &a = *u.A;
        Outcome o = window([&] {
            if (coincident) { if (fk) do_assign(op, a(m), a(it) + cst); else do_assign(op, a(m), a(it)); }
            else { if (fk) do_assign(op, a(m).noalias(), a(it) + cst); else do_assign(op, a(m).noalias(), a(it)); }
        }, u.failalloc);
        snprintf(cx.info->desc, sizeof cx.info->desc, "A(mask)%s %s f%u(A(%s))", coincident ? "" : ".noalias()", OPNAME[op], fk, coincident ? "identity index" : (mode == 0 ? "reversed index" : "rotated index"));
        cx.info->nontrivial = hazard;
        cx.info->sig = mix2(mix2(((uint64_t)op << 4) | fk, coincident ? 7 : 6), (uint64_t)mode * 64 + (uint64_t)rot);
        if (cx.cnt) cx.cnt->bump(std::string("probe/mask-view overlap ") + U::overlap_class(coincident, hazard));
        std::vector<char> sm(N, 0); for (int i = 0; i < N; ++i) sm[i] = m.data()[i] ? 1 : 0;
        u.finish(cx, o, "mask_alias", nullptr, cx.info->desc, &sm);
    }
};
template <class T, size_t... D> void Uni<T, D...>::idx_alias(const Step &st, StepCtx &cx) { IdxOps<self>::idx(*this, st, cx); }
template <class T, size_t... D> void Uni<T, D...>::mask_alias(const Step &st, StepCtx &cx) { IdxOps<self>::mask(*this, st, cx); }

// ---------------------------------------------------------------- diagonal views (rank-2 square): coincident clause only
template <class U, bool Square> struct DiagOps { static void go(U &, const Step &, StepCtx &) {} enum { available = 0 }; };
template <class U> struct DiagOps<U, true> {
    enum { available = 1 };
    using T = typename U::Ten::scalar_type;
    static void go(U &u, const Step &st, StepCtx &cx) {
        int op = (int)(st.a[A_OP] % 5); uint32_t fk = st.a[A_RHS] % 3;
        u.normalise(cx.si, op, true);
        const int N = u.dims[0];
        if (op == 4) fk = 0;
        T cst = smallval<T>(st.a[A_VAL]);
        auto f = [&](T x) -> T { switch (fk) { case 0: return x; case 1: return (T)(x + cst); default: return (T)((T)2 * x - cst); } };
        u.expA = u.sA;
        for (int i = 0; i < N; ++i) u.expA[i * N + i] = apply_op<T>(op, u.sA[i * N + i], f(u.sA[i * N + i]));
        auto &a = *u.A;
        Outcome o = window([&] { switch (fk) { case 0: do_assign(op, diag(a), diag(a)); break; case 1: do_assign(op, diag(a), diag(a) + cst); break; default: do_assign(op, diag(a), (T)2 * diag(a) - cst); } }, u.failalloc);
        snprintf(cx.info->desc, sizeof cx.info->desc, "diag(A) %s f%u(diag(A))", OPNAME[op], fk);
        cx.info->nontrivial = memcmp(u.expA.data(), u.sA.data(), sizeof(T) * U::SZ) != 0;
        cx.info->sig = mix2(((uint64_t)op << 8) | fk, 0xd1a6);
        if (cx.cnt) cx.cnt->bump("probe/diag-view coincident");
        std::vector<char> sm(U::SZ, 0); for (int i = 0; i < N; ++i) sm[i * N + i] = 1;
        u.finish(cx, o, "diag_coincident", nullptr, cx.info->desc, &sm);
    }
};
template <class U> struct IsSquare2 { static constexpr bool value = false; };
template <class T, size_t N> struct IsSquare2<Uni<T, N, N>> { static constexpr bool value = true; };
template <class T, size_t... D> void Uni<T, D...>::diag_coinc(const Step &st, StepCtx &cx) { DiagOps<self, IsSquare2<self>::value && !VIEWSIM_MAP_PARENT>::go(*this, st, cx); }

// ---------------------------------------------------------------- dispatcher
template <class T, size_t... D>
void Uni<T, D...>::step(const char *prop, int si, const Step &st, uint32_t kind, Verdict &v, Counters *cnt, StepInfo &info, Hash &h, FILE *log) {
    StepCtx cx{prop, si, &v, cnt, &info, &h, log, ""};
    static thread_local std::string opn;
    switch (kind) {
    case K_DYN_WRITE: opn = "dyn_write<" + nm + ">"; cx.opname = opn.c_str(); info.kind = "dyn_write"; dyn_write(st, cx); break;
    case K_ELEM_WRITE: opn = "elem_write<" + nm + ">"; cx.opname = opn.c_str(); info.kind = "elem_write"; elem_write(st, cx); break;
    case K_DYN_ALIAS: opn = "dyn_alias<" + nm + ">"; cx.opname = opn.c_str(); info.kind = "dyn_alias"; dyn_alias(st, cx); break;
    case K_H_CREATE: opn = "h_create<" + nm + ">"; cx.opname = opn.c_str(); info.kind = "handle"; h_create(st, cx); break;
    case K_H_NOALIAS: opn = "h_noalias<" + nm + ">"; cx.opname = opn.c_str(); info.kind = "handle"; h_noalias(st, cx); break;
    case K_H_ASSIGN: opn = "h_assign<" + nm + ">"; cx.opname = opn.c_str(); info.kind = "handle_assign"; h_assign(st, cx); break;
    case K_IDX_ALIAS: opn = "idx_alias<" + nm + ">"; cx.opname = opn.c_str(); info.kind = "idx_alias"; idx_alias(st, cx); break;
    case K_MASK_ALIAS: opn = "mask_alias<" + nm + ">"; cx.opname = opn.c_str(); info.kind = "mask_alias"; mask_alias(st, cx); break;
    case K_BAD_ELEM: opn = "bad_elem<" + nm + ">"; cx.opname = opn.c_str(); info.kind = "bad_elem"; bad_elem(st, cx); break;
    case K_BOOL_WRITE: opn = "bool_write<" + nm + ">"; cx.opname = opn.c_str(); info.kind = "bool_write"; bool_write(st, cx); break;
    case K_FLAT_WRITE: opn = "flat_write<" + nm + ">"; cx.opname = opn.c_str(); info.kind = "flat_write"; flat_write(st, cx); break;
    case K_DIAG: opn = "diag_coinc<" + nm + ">"; cx.opname = opn.c_str(); info.kind = "diag"; diag_coinc(st, cx); break;
    default:
        if (kind >= K_FIX_BASE && kind - K_FIX_BASE < fix.size()) { auto &fo = fix[kind - K_FIX_BASE]; info.kind = fo.family; cx.opname = fo.name.c_str(); fo.fn(*this, st, cx); }
    }
}

} // namespace viewsim
#endif
