// mapsim universe: one element type, one element count, three same-size shapes.
#ifndef MAPSIM_UNIVERSE_H
#define MAPSIM_UNIVERSE_H
#include "mapsim.h"

namespace mapsim {

template <int R> using rank_t = std::integral_constant<int, R>;
template <class S> struct size_of;
template <size_t... D> struct size_of<shape_<D...>> { static constexpr size_t value = prod_<D...>::value; };
template <size_t... D> inline void dims_of(shape_<D...>, int *out) { const int d[sizeof...(D)] = {(int)D...}; for (size_t k = 0; k < 4; ++k) out[k] = k < sizeof...(D) ? d[k] : 1; }

// ---- rank-specific helpers, written once for maps and twins alike -----------------------------------------
template <class X> auto &elem_at(X &x, const int *ix, rank_t<1>) { return x(ix[0]); }
template <class X> auto &elem_at(X &x, const int *ix, rank_t<2>) { return x(ix[0], ix[1]); }
template <class X> auto &elem_at(X &x, const int *ix, rank_t<3>) { return x(ix[0], ix[1], ix[2]); }
template <class X> auto &elem_at(X &x, const int *ix, rank_t<4>) { return x(ix[0], ix[1], ix[2], ix[3]); }

// compile-time views: variant v of rank R on destination d with source s (same shape)
template <class Dd, class Ss, size_t N> void fixview_op(int op, int v, Dd &d, const Ss &s, shape_<N>) {
    switch (v % 3) {
    case 0: do_assign(op, d(fseq<0, (N + 1) / 2>()), s(fseq<N / 2, N>())); break;
    case 1: do_assign(op, d(fseq<N - 1, N>()), s(fseq<0, 1>())); break;
    default: do_assign(op, d(fseq<0, N, 2>()), s(fseq<0, N, 2>())); break;
    }
}
template <class Dd, class Ss, size_t M, size_t N> void fixview_op(int op, int v, Dd &d, const Ss &s, shape_<M, N>) {
    switch (v % 4) {
    case 0: do_assign(op, d(fseq<0, 1>(), fall), s(fseq<M - 1, M>(), fall)); break;
    case 1: do_assign(op, d(fall, fseq<N - 1, N>()), s(fall, fseq<0, 1>())); break;
    case 2: do_assign(op, d(fseq<0, (M + 1) / 2>(), fseq<0, (N + 1) / 2>()), s(fseq<M / 2, M>(), fseq<N / 2, N>())); break;
    default: do_assign(op, d(fseq<0, M, 2>(), fall), s(fseq<0, M, 2>(), fall)); break;
    }
}
template <class Dd, class Ss, size_t M, size_t N, size_t P> void fixview_op(int op, int v, Dd &d, const Ss &s, shape_<M, N, P>) {
    switch (v % 3) {
    case 0: do_assign(op, d(fseq<0, 1>(), fall, fall), s(fseq<M - 1, M>(), fall, fall)); break;
    case 1: do_assign(op, d(fall, fall, fseq<P - 1, P>()), s(fall, fall, fseq<0, 1>())); break;
    default: do_assign(op, d(fall, fseq<0, (N + 1) / 2>(), fseq<P / 2, P>()), s(fall, fseq<N / 2, N>(), fseq<0, P - P / 2>())); break;
    }
}
template <class Dd, class Ss, size_t M, size_t N, size_t P, size_t Q> void fixview_op(int op, int v, Dd &d, const Ss &s, shape_<M, N, P, Q>) {
    switch (v % 2) {
    case 0: do_assign(op, d(fseq<0, 1>(), fall, fall, fall), s(fseq<M - 1, M>(), fall, fall, fall)); break;
    default: do_assign(op, d(fall, fall, fall, fseq<Q - 1, Q>()), s(fall, fall, fall, fseq<0, 1>())); break;
    }
}
// dynamic views through a handle: scalar right-hand sides for rank >= 2, tensor-valued for rank >= 3 (what compiles for maps)
template <class Dd, class Ss, class T, size_t N> void dynview_op(int op, const int *r, T c, Dd &d, Ss &, shape_<N>) { switch (op) { case 0: d.fill(c); break; case 1: d += c; break; case 2: d -= c; break; case 3: d *= c; break; default: d /= c; } (void)r; }
template <class Dd, class Ss, class T, size_t M, size_t N> void dynview_op(int op, const int *r, T c, Dd &d, Ss &, shape_<M, N>) {
    do_assign(op, d(seq(r[0], r[1], r[2]), seq(r[3], r[4], r[5])), c);
}
template <class Dd, class Ss, class T, size_t M, size_t N, size_t P> void dynview_op(int op, const int *r, T c, Dd &d, Ss &s, shape_<M, N, P>) {
    if (r[9] & 1) do_assign(op, d(seq(r[0], r[1], r[2]), seq(r[3], r[4], r[5]), seq(r[6], r[7], r[8])), c);
    else do_assign(op, d(seq(r[0], r[1], r[2]), seq(r[3], r[4], r[5]), seq(r[6], r[7], r[8])), s(seq(r[0], r[1], r[2]), seq(r[3], r[4], r[5]), seq(r[6], r[7], r[8])) * (T)1);
}
template <class Dd, class Ss, class T, size_t M, size_t N, size_t P, size_t Q> void dynview_op(int op, const int *r, T c, Dd &d, Ss &, shape_<M, N, P, Q>) {
    do_assign(op, d(seq(r[0], r[1], r[2]), seq(r[3], r[4], r[5]), seq(r[6], r[7], r[8]), seq(0, (int)Q)), c);
}
// products through a rank-2 handle
template <class H, class T, size_t... D> void matmul_read(const H &, T *out, uint32_t, shape_<D...>) { out[0] = 0; }
template <class H, class T, size_t M, size_t N> void matmul_read(const H &h, T *out, uint32_t seed, shape_<M, N>) {
    Tensor<T, N, 2> z; for (size_t i = 0; i < N * 2; ++i) z.data()[i] = smallval<T>(mix2(seed, i));
    Tensor<T, M, 2> r = matmul(h, z); Tensor<T, M, 2> r2 = h % z;
    for (size_t i = 0; i < M * 2; ++i) { out[i] = r.data()[i]; out[M * 2 + i] = r2.data()[i]; }
}
// (d += X + d % Z through a map does not compile on the pinned tree: no does_alias()/matmul dispatcher for a TensorMap destination)
template <class S> struct mm_len { static constexpr size_t value = 1; };
template <size_t M, size_t N> struct mm_len<shape_<M, N>> { static constexpr size_t value = 4 * M; };

// column-major offset of the row-major element number q of a shape
template <size_t... D> size_t colmajor_offset(size_t q, shape_<D...>) {
    constexpr int R = (int)sizeof...(D); const size_t d[R] = {D...}; size_t idx[R];
    for (int k = R - 1; k >= 0; --k) { idx[k] = q % d[k]; q /= d[k]; }
    size_t off = 0, mul = 1; for (int k = 0; k < R; ++k) { off += idx[k] * mul; mul *= d[k]; }
    return off;
}

// construction from (nested) initializer lists: rank 1 generically, a few small shapes literally
template <class Ten, class T, class S> struct IL { enum { available = 0 }; static Ten make(const T *) { return Ten(); } };
template <class Ten, class T, size_t N> struct IL<Ten, T, shape_<N>> { enum { available = 1 };
    template <size_t... I> static Ten mk(const T *v, std_ext::index_sequence<I...>) { return Ten{v[I]...}; }
    static Ten make(const T *v) { return mk(v, std_ext::make_index_sequence<N>{}); } };
} // namespace mapsim
#include "il_gen.h"      // generated: nested literal lists for every rank-2 / rank-3 catalogue shape
namespace mapsim {

// squeeze(): available as the rank-1 handle when the owning source has exactly one non-unit extent
template <class T, class S1, class Map0> struct Squeeze { enum { available = 0 }; template <class Src> static Map0 make(Src &s) { return Map0(flatten(s)); } template <class Src> static Map0 make_from_map(Src &s) { return Map0(s.data()); } };
template <class T, size_t N> struct Squeeze<T, shape_<1, N>, TensorMap<T, N>> { enum { available = 1 }; template <class Src> static TensorMap<T, N> make(Src &s) { return squeeze(s); } template <class Src> static TensorMap<T, N> make_from_map(Src &s) { return squeeze(s); } };
template <class T, size_t N> struct Squeeze<T, shape_<N, 1>, TensorMap<T, N>> { enum { available = 1 }; template <class Src> static TensorMap<T, N> make(Src &s) { return squeeze(s); } template <class Src> static TensorMap<T, N> make_from_map(Src &s) { return squeeze(s); } };

template <class T, class S0, class S1, class S2> struct MU : UniverseBase {
    static constexpr int SZ = (int)size_of<S0>::value;
    using Ten0 = typename ten_of<T, S0>::type; using Ten1 = typename ten_of<T, S1>::type; using Ten2 = typename ten_of<T, S2>::type;
    using Map0 = typename ten_of<T, S0>::map; using Map1 = typename ten_of<T, S1>::map; using Map2 = typename ten_of<T, S2>::map;
    std::string nm;
    T *buf = nullptr;                 // the storage (raw buffer, or data() of the owning source)
    Ten1 *src = nullptr;              // owning source (storage kind 1)
    int storage = 0; uint32_t side = 0, misalign = 0, dataseed = 0; bool failalloc = false;
    std::vector<T> shadow;
    alignas(Map0) unsigned char hs0[sizeof(Map0)]; alignas(Map1) unsigned char hs1[sizeof(Map1)]; alignas(Map2) unsigned char hs2[sizeof(Map2)];
    Map0 *h0 = nullptr; Map1 *h1 = nullptr; Map2 *h2 = nullptr;
    int last_writer = -1;

    explicit MU(const char *n) : nm(n) { shadow.resize(SZ); }
    const char *name() const override { return nm.c_str(); }

    void wrap() {
        if (storage == 0) { h1 = new (hs1) Map1(buf); h2 = new (hs2) Map2(buf);
            // squeeze() also accepts a map: when available the rank-1 handle of a raw buffer is squeeze(map)
            h0 = new (hs0) Map0(Squeeze<T, S1, Map0>::make_from_map(*h1)); }
        else { h0 = new (hs0) Map0(Squeeze<T, S1, Map0>::make(*src)); h1 = new (hs1) Map1(*src); h2 = new (hs2) Map2(reshape_to(*src, S2{})); }
    }
    template <size_t... D> static TensorMap<T, D...> reshape_to(Ten1 &s, shape_<D...>) { return reshape<D...>(s); }
    void refill(uint64_t salt, bool pow2) { for (int i = 0; i < SZ; ++i) { uint64_t hh = mix2(((uint64_t)dataseed << 20) ^ salt, (uint64_t)i); shadow[i] = pow2 ? pow2val<T>(hh) : smallval<T>(hh); buf[i] = shadow[i]; } }
    void setup(const Plan &p) override {
        storage = (int)(p.hdr[H_STORAGE] % 2); side = p.hdr[H_SIDE] % 3; misalign = (p.hdr[H_MISALIGN] & 0x40) ? p.hdr[H_MISALIGN] % 64 : p.hdr[H_MISALIGN] % 64 / (uint32_t)alignof(T) * (uint32_t)alignof(T);   // bit 6: byte-granular (address not a multiple of sizeof(T))
        dataseed = p.hdr[H_DATA]; failalloc = p.hdr[H_FAILALLOC] & 1;
        uint32_t pat = p.hdr[H_POISON];
        g_arena.reset(0, pat); g_scrub_byte = (uint8_t)(0x47 + 5 * pat); g_stack_skew = (p.hdr[H_DATA] & 3) << 4;
        if (storage == 0) { buf = (T *)g_arena.place(0, sizeof(T) * SZ, (p.hdr[H_MISALIGN] & 0x40) ? 1 : alignof(T), side, misalign, true); src = nullptr; }
        else { uint8_t *q = g_arena.place(0, sizeof(Ten1), alignof(Ten1), side, 0, true); memset(q, 0, sizeof(Ten1)); src = new (q) Ten1; buf = src->data(); misalign = 0; }
        refill(0, false);
        wrap(); last_writer = -1;
    }
    T maxabs() const { T m = 0; for (int i = 0; i < SZ; ++i) { T a = shadow[i] < 0 ? (T)(-shadow[i]) : shadow[i]; if (a > m) m = a; } return m; }
    void normalise(int si) {
        bool bad = maxabs() > (T)2048;
        if (std::is_floating_point<T>::value) for (int i = 0; i < SZ && !bad; ++i) if ((double)shadow[i] != std::floor((double)shadow[i])) bad = true;
        if (bad) refill(2000 + (uint64_t)si, false);
    }

    // ---------------------------------------------------------------- one operation through handle h and on the twin
    struct Cx { int si; const Step *st; const char *opname; Verdict *v; Counters *cnt; StepInfo *info; Hash *h; };

    template <class Map, class Ten, class Sh> void on_handle(Map &h, Ten *, Sh sh, uint32_t kind, int hi, Cx &cx) {
        constexpr int R = (int)Sh::rank;
        const Step &st = *cx.st;
        int op = (int)(st.a[A_OP] % 5); uint32_t rk = st.a[A_RHS];
        normalise(cx.si);
        Ten tw; memcpy(tw.data(), shadow.data(), sizeof(T) * SZ);        // the twin: an ordinary owning tensor with the same values
        Ten X, Y;
        for (int i = 0; i < SZ; ++i) { X.data()[i] = op == 4 ? pow2val<T>(mix2(st.a[A_VAL], (uint64_t)i)) : smallval<T>(mix2(st.a[A_VAL], (uint64_t)i)); Y.data()[i] = smallval<T>(mix2(st.a[A_VAL] + 31, (uint64_t)i)); }
        T c = op == 4 ? pow2val<T>(st.a[A_VAL]) : smallval<T>(st.a[A_VAL]);
        int dd[4]; dims_of(sh, dd);
        int ix[4] = {0, 0, 0, 0}; for (int k = 0; k < R; ++k) { int pos = (int)(st.a[A_I0 + k] % (uint32_t)dd[k]); ix[k] = ((st.a[A_X] >> k) & 1) ? pos - dd[k] : pos; }
        int rg[10]; for (int k = 0; k < 3; ++k) { int N = dd[k]; int f = (int)(st.a[A_I0 + 2 * k] % (uint32_t)N); int stp = 1 + (int)(st.a[A_I0 + 2 * k + 1] % 2); int mc = (N - f + stp - 1) / stp; int cnt = 1 + (int)((st.a[A_I0 + 2 * k + 1] / 2) % (uint32_t)mc);
            int l = std::min(N, f + cnt * stp);
            // documented end-relative encodings of the bounds (as in viewsim): last == -1 means N; a negative bound b means b + N + 1
            uint32_t e = (st.a[A_X] >> (12 + 2 * k)) & 3;
            if (e == 1 && l == N) l = -1; else if (e == 2) l = l - N - 1; else if (e == 3) { l = l - N - 1; f = f - N - 1; }
            rg[3 * k] = f; rg[3 * k + 1] = l; rg[3 * k + 2] = stp; }
        rg[9] = (int)(st.a[A_X] >> 8);
        int mv = (int)(st.a[A_RHS] % 5);
        // results of reading kinds
        static T rd_h[4096], rd_t[4096]; size_t nrd = 0; bool writes = true;
        auto run = [&](auto &d, T *rd) {
            switch (kind) {
            case K_SCALAR: switch (op) { case 0: d.fill(c); break; case 1: d += c; break; case 2: d -= c; break; case 3: d *= c; break; default: d /= c; } break;   // map = scalar does not compile: fill() is the scalar assignment
            case K_TENSOR: do_assign(op, d, X); break;
            case K_EXPR: if (op == 4) do_assign(op, d, X * (T)2); else switch (rk % 4) { case 0: do_assign(op, d, X * (T)2 + Y); break; case 1: do_assign(op, d, X - Y); break; case 2: do_assign(op, d, X * Y); break; default: do_assign(op, d, (X + Y) * (T)2 - X); } break;
            case K_SELF_EXPR: switch (rk % 3) { case 0: d = d * (T)2 - X; break; case 1: d = X + d; break; default: d += d; } break;
            case K_METHOD: switch ((int)(st.a[A_RHS] % 6)) { case 0: d.fill(c); break; case 1: d.zeros(); break; case 2: d.ones(); break; case 3: d.iota(c); break; case 4: d.arange(c); break; default: d.reverse(); } break;
            case K_ELEM: { auto &e = elem_at(d, ix, rank_t<R>{}); switch (op) { case 0: e = c; break; case 1: e += c; break; case 2: e -= c; break; case 3: e *= c; break; default: e /= c; } } break;
            case K_FIXVIEW: fixview_op(op, (int)(rk % 12), d, X, sh); break;
            case K_DYNVIEW: dynview_op(op, rg, c, d, X, sh); break;
            case K_REDUCE: rd[0] = d.sum(); rd[1] = sum(d + X); rd[2] = (T)(all_of(d == d) ? 1 : 0); rd[3] = inner(d, X);
                           // (min()/max() do not compile under AVX-512, product() not for int under AVX: API gaps, left out)
                           { auto cz = d.template cast<double>(); rd[4] = (T)cz.data()[(size_t)(st.a[A_VAL] % (uint32_t)SZ)]; rd[5] = (T)cz.data()[0]; } break;
            case K_READ_EXPR: { Ten r = d * (T)2 + X; memcpy(rd, r.data(), sizeof(T) * SZ); } break;
            case K_MATMUL: matmul_read(d, rd, st.a[A_VAL], sh); break;
            default: break;
            }
        };
        if (kind == K_REDUCE) { nrd = 6; writes = false; } else if (kind == K_READ_EXPR) { nrd = (size_t)SZ; writes = false; } else if (kind == K_MATMUL) { nrd = mm_len<Sh>::value; writes = false; }
        for (size_t i = 0; i < nrd; ++i) { rd_h[i] = 0; rd_t[i] = 0; }
        if (kind == K_MAP_COPY) {
            // h = other map of the SAME type over another buffer: on owning tensors `a = b` copies the values
            g_arena.reset(1, st.a[A_X]); T *ob = (T *)g_arena.place(1, sizeof(T) * SZ, alignof(T), st.a[A_I0] % 3, st.a[A_I0 + 1] % 64, false);
            for (int i = 0; i < SZ; ++i) ob[i] = X.data()[i];
            Map other(ob); Ten otw(X);
            Outcome ot2 = window([&] { tw = otw; }, false); (void)ot2;
            // the right-hand side is an lvalue, or an rvalue (a temporary map, as returned by reshape/flatten; or std::move of a named one):
            // the value category of the source must not decide between copying the values and re-binding the handle
            const uint32_t cat = st.a[A_VAL] % 3;
            Outcome o2 = window([&] { if (cat == 0) h = other; else if (cat == 1) h = Map(ob); else h = std::move(other); }, failalloc);
            snprintf(cx.info->desc, sizeof cx.info->desc, "h%d<rank %d> = another map of the same type (%s)", hi, R, cat == 0 ? "lvalue" : cat == 1 ? "temporary" : "std::move");
            cx.info->sig = mix2(0x3c, (uint64_t)hi * 4 + cat); cx.info->nontrivial = true;
            if (o2.kind == 1) { char d2[200]; o2.describe(d2, sizeof d2); cx.v->set(cx.si, "fault/map_copy", cx.opname, "%s: %s raised %s", cx.opname, cx.info->desc, d2); return; }
            if (h.data() != buf) { cx.v->set(cx.si, "rebind/map_copy", cx.opname, "%s: %s: the handle was re-bound to the other buffer instead of receiving its values (an owning tensor would have been assigned the values)", cx.opname, cx.info->desc);
                new (&h) Map(buf); return; }
            if (memcmp(buf, tw.data(), sizeof(T) * SZ) != 0) { cx.v->set(cx.si, "divergence/map_copy", cx.opname, "%s: %s: buffer differs from the owning twin after the assignment", cx.opname, cx.info->desc); return; }
            memcpy(shadow.data(), tw.data(), sizeof(T) * SZ); last_writer = hi; return;
        }
        Outcome ot = window([&] { run(tw, rd_t); }, false);
        if (ot.kind != 0) { if (cx.cnt) cx.cnt->bump(std::string("anomaly/twin-operation-did-not-complete/") + KINDNAME[kind]); cx.info->kind = "aborted"; return; }
        Outcome o = window([&] { run(h, rd_h); }, failalloc);
        cx.h->u64((uint64_t)o.kind); if (o.kind == 1) o.hash_into(*cx.h);
        if (o.allocs && cx.cnt) cx.cnt->bump("anomaly/allocation-inside-map-op (C07 matter)", o.allocs);
        snprintf(cx.info->desc, sizeof cx.info->desc, "h%d<rank %d>.%s op%s rhs%u", hi, R, KINDNAME[kind], OPNAME[op], rk % 16);
        char k[96], d[200];
        if (o.kind == 1) { o.describe(d, sizeof d); snprintf(k, sizeof k, "fault/%s", KINDNAME[kind]);
            cx.v->set(cx.si, k, cx.opname, "%s: %s through the map raised %s while the same operation on an owning tensor completed", cx.opname, cx.info->desc, d); return; }
        if (o.kind != 0) { if (cx.cnt) cx.cnt->bump(std::string("anomaly/exception-in-map-op/") + o.what()); cx.info->kind = "aborted"; return; }
        cx.h->bytes(buf, sizeof(T) * SZ);
        if (memcmp(buf, tw.data(), sizeof(T) * SZ) != 0) {
            int bad = 0; for (int i = 0; i < SZ; ++i) if (memcmp(&buf[i], &tw.data()[i], sizeof(T)) != 0) { bad = i; break; }
            snprintf(k, sizeof k, "divergence/%s", KINDNAME[kind]);
            cx.v->set(cx.si, k, cx.opname, "%s: %s: buffer element %d is %.17g, the owning twin has %.17g", cx.opname, cx.info->desc, bad, (double)buf[bad], (double)tw.data()[bad]); return; }
        if (nrd) { cx.h->bytes(rd_h, sizeof(T) * nrd);
            if (memcmp(rd_h, rd_t, sizeof(T) * nrd) != 0) { int bad = 0; for (size_t i = 0; i < nrd; ++i) if (memcmp(&rd_h[i], &rd_t[i], sizeof(T)) != 0) { bad = (int)i; break; }
                snprintf(k, sizeof k, "read-divergence/%s", KINDNAME[kind]);
                cx.v->set(cx.si, k, cx.opname, "%s: %s: value %d read through the map is %.17g, through the owning twin %.17g", cx.opname, cx.info->desc, bad, (double)rd_h[bad], (double)rd_t[bad]); return; } }
        bool changed = memcmp(shadow.data(), tw.data(), sizeof(T) * SZ) != 0;
        memcpy(shadow.data(), tw.data(), sizeof(T) * SZ);
        if (writes && changed) last_writer = hi;
        cx.info->nontrivial = (writes && changed) || misalign != 0 || side != MIDDLE;
        cx.info->sig = mix2(mix2(((uint64_t)kind << 8) | (uint64_t)op, (uint64_t)hi * 16 + rk % 12), ((uint64_t)misalign << 4) | side | ((uint64_t)storage << 12));
    }

    // every other handle, and the source, must observe exactly the buffer bytes
    template <class Map, class Ten> bool observe(Map &h, Ten *, int hi, Cx &cx) {
        Ten r; Outcome o = window([&] { r = h; }, false);
        char k[96];
        if (o.kind != 0) { snprintf(k, sizeof k, "fault/cross-handle-read"); char d[200]; o.describe(d, sizeof d); cx.v->set(cx.si, k, cx.opname, "%s: reading through handle %d raised %s", cx.opname, hi, d); return false; }
        if (memcmp(r.data(), shadow.data(), sizeof(T) * SZ) != 0) { snprintf(k, sizeof k, "stale-handle/cross-handle-read");
            cx.v->set(cx.si, k, cx.opname, "%s: handle %d does not observe the bytes written through handle %d", cx.opname, hi, last_writer); return false; }
        return true;
    }

    void ctor_layout(Cx &cx);
    void cross_handle(Cx &cx);
    void step(int si, const Step &st, uint32_t kind, const char *opname, Verdict &v, Counters *cnt, StepInfo &info, Hash &h) override {
        Cx cx{si, &st, opname, &v, cnt, &info, &h};
        info.kind = KINDNAME[kind];
        int hi = (int)(st.a[A_HANDLE] % 3);
        if (kind == K_REWRAP) {
            // the only durable state is the buffer: destroy every handle and wrap it again -- nothing may be lost
            h0->~Map0(); h1->~Map1(); h2->~Map2(); memset(hs0, 0xEE, sizeof hs0); memset(hs1, 0xEE, sizeof hs1); memset(hs2, 0xEE, sizeof hs2);
            wrap(); if (cnt) cnt->bump("fault/re-wrap (all handles destroyed and re-created)");
            snprintf(info.desc, sizeof info.desc, "re-wrap"); info.sig = mix2(0x4e, (uint64_t)storage);
        } else if (kind == K_SOURCE_WRITE) {
            normalise(si);
            int i = (int)(st.a[A_I0] % (uint32_t)SZ); T c = smallval<T>(st.a[A_VAL]);
            if (storage == 1 && (st.a[A_RHS] & 1)) { Ten1 &s = *src; Outcome o = window([&] { s += c; }, false); (void)o; for (int q = 0; q < SZ; ++q) shadow[q] = (T)(shadow[q] + c); }
            else { buf[i] = c; shadow[i] = c; }
            last_writer = 3; info.nontrivial = true;
            snprintf(info.desc, sizeof info.desc, "write through the source"); info.sig = mix2(0x50, (uint64_t)storage * 2 + (st.a[A_RHS] & 1));
            if (memcmp(buf, shadow.data(), sizeof(T) * SZ) != 0) { v.set(si, "divergence/source_write", opname, "%s: writing through the source did not have the expected effect", opname); return; }
        } else if (kind == K_CTOR_LAYOUT) {
            ctor_layout(cx);
        } else if (kind == K_CROSS_HANDLE) {
            cross_handle(cx);
        } else if (kind == K_BAD_ELEM) {
            // fault inside the history: an out-of-range scalar index through a handle (checks-on builds; elsewhere a no-op).
            // Whether the promised error is raised is C07's clause; here the buffer, the other handles and the surroundings must be unaffected.
#if FASTOR_BOUNDS_CHECK
            auto bad = [&](auto &h, auto sh) {
                constexpr int R = (int)decltype(sh)::rank; int dd[4]; dims_of(sh, dd); int ix[4] = {0, 0, 0, 0};
                for (int k = 0; k < R; ++k) ix[k] = (int)(st.a[A_I0 + k] % (uint32_t)dd[k]);
                int ax = (int)(st.a[A_RHS] % (uint32_t)R), over = 1 + (int)(st.a[A_X] % 3);
                ix[ax] = (st.a[A_OP] & 1) ? dd[ax] + over - 1 : -dd[ax] - over;
                bool wr = st.a[A_VAL] & 1; T c = smallval<T>(st.a[A_VAL]); T rd = 0;
                Outcome o = window([&] { if (wr) elem_at(h, ix, rank_t<R>{}) = c; else rd = elem_at(h, ix, rank_t<R>{}); }, false);
                if (cnt) { cnt->bump("fault/bad-index-delivered-inside-history"); if (o.kind == 2) cnt->bump("probe/bad-index-exception-observed"); }
                snprintf(info.desc, sizeof info.desc, "h%d(bad index on axis %d) %s", hi, ax, wr ? "write" : "read");
                if (o.kind == 1) { char d[200]; o.describe(d, sizeof d); v.set(si, "fault/bad_elem", opname, "%s: %s raised %s", opname, info.desc, d); }
            };
            switch (hi) { case 0: bad(*h0, S0{}); break; case 1: bad(*h1, S1{}); break; default: bad(*h2, S2{}); }
            info.nontrivial = true;
            if (!v.bad && memcmp(buf, shadow.data(), sizeof(T) * SZ) != 0) { v.set(si, "divergence/bad_elem", opname, "%s: %s modified the buffer", opname, info.desc); }
#else
            snprintf(info.desc, sizeof info.desc, "bad index (no-op: runtime checks are off in this build)");
#endif
            info.sig = mix2(0xbad, (uint64_t)hi);
        } else {
            switch (hi) { case 0: on_handle(*h0, (Ten0 *)nullptr, S0{}, kind, 0, cx); break; case 1: on_handle(*h1, (Ten1 *)nullptr, S1{}, kind, 1, cx); break; default: on_handle(*h2, (Ten2 *)nullptr, S2{}, kind, 2, cx); }
        }
        if (v.bad || !strcmp(info.kind, "aborted")) return;
        // cross-handle reads after every step
        if (!observe(*h0, (Ten0 *)nullptr, 0, cx)) return;
        if (!observe(*h1, (Ten1 *)nullptr, 1, cx)) return;
        if (!observe(*h2, (Ten2 *)nullptr, 2, cx)) return;
        if (storage == 1 && memcmp(src->data(), shadow.data(), sizeof(T) * SZ) != 0) { v.set(si, "stale-handle/source", opname, "%s: the owning source does not observe the bytes written through a map", opname); return; }
        long off = g_arena.check_poison(0);
        if (off >= 0) { char k[96]; snprintf(k, sizeof k, "poison/%s", KINDNAME[kind]); v.set(si, k, opname, "%s: %s overwrote byte %ld outside the wrapped extent", opname, info.desc, off); return; }
        if (cnt && Squeeze<T, S1, Map0>::available) cnt->bump(storage == 1 ? "probe/squeeze(tensor) handle live" : "probe/squeeze(map) handle live");
        if (cnt) { cnt->bump("probe/cross-handle reads", 3); if (last_writer >= 0 && last_writer != 3) cnt->bump("probe/write through one handle observed through the others"); }
    }
};

// one handle assigned from ANOTHER handle (or the source) of the same storage: h_i op= h_j. The twin of the right-hand side is an owning
// tensor holding the same values, so the expected effect is that of `t_i op= t_j` on two independent owning tensors.
template <class T, class S0, class S1, class S2> void MU<T, S0, S1, S2>::cross_handle(Cx &cx) {
    const Step &st = *cx.st; int hi = (int)(st.a[A_HANDLE] % 3), hj = (int)((hi + 1 + st.a[A_RHS] % 2) % 3); int op = (int)(st.a[A_OP] % 4);   // =, +=, -=, *=
    normalise(cx.si);
    bool from_source = storage == 1 && (st.a[A_X] & 1);
    auto go = [&](auto &hd, auto *tenp, auto &hs, auto *tensp) {
        using Ten = typename std::remove_pointer<decltype(tenp)>::type; using TenS = typename std::remove_pointer<decltype(tensp)>::type;
        Ten tw; memcpy(tw.data(), shadow.data(), sizeof(T) * SZ); TenS ts; memcpy(ts.data(), shadow.data(), sizeof(T) * SZ);
        Outcome ot = window([&] { do_assign(op, tw, ts); }, false);
        if (ot.kind != 0) { cx.info->kind = "aborted"; return; }
        Outcome o = from_source ? window([&] { do_assign(op, hd, *src); }, failalloc) : window([&] { do_assign(op, hd, hs); }, failalloc);
        snprintf(cx.info->desc, sizeof cx.info->desc, "h%d %s %s (same storage)", hi, OPNAME[op], from_source ? "the owning source" : (hj == 0 ? "h0" : hj == 1 ? "h1" : "h2"));
        cx.info->sig = mix2(0xc4, (uint64_t)op * 16 + (uint64_t)hi * 4 + (uint64_t)hj + (from_source ? 64 : 0)); cx.info->nontrivial = true;
        if (o.kind == 1) { char d[200]; o.describe(d, sizeof d); cx.v->set(cx.si, "fault/cross_handle", cx.opname, "%s: %s raised %s", cx.opname, cx.info->desc, d); return; }
        if (o.kind != 0) { cx.info->kind = "aborted"; return; }
        cx.h->bytes(buf, sizeof(T) * SZ);
        if (memcmp(buf, tw.data(), sizeof(T) * SZ) != 0) { int bad = 0; for (int i = 0; i < SZ; ++i) if (memcmp(&buf[i], &tw.data()[i], sizeof(T)) != 0) { bad = i; break; }
            cx.v->set(cx.si, "divergence/cross_handle", cx.opname, "%s: %s: buffer element %d is %.17g, two independent owning tensors with the same values give %.17g", cx.opname, cx.info->desc, bad, (double)buf[bad], (double)tw.data()[bad]); return; }
        memcpy(shadow.data(), tw.data(), sizeof(T) * SZ); last_writer = hi;
        if (cx.cnt) cx.cnt->bump("probe/handle assigned from another handle of the same storage");
    };
    // (source of the right-hand side when from_source: src has shape S1)
    switch (hi * 3 + hj) {
    case 1: go(*h0, (Ten0 *)nullptr, *h1, (Ten1 *)nullptr); break; case 2: go(*h0, (Ten0 *)nullptr, *h2, (Ten2 *)nullptr); break;
    case 3: go(*h1, (Ten1 *)nullptr, *h0, (Ten0 *)nullptr); break; case 5: go(*h1, (Ten1 *)nullptr, *h2, (Ten2 *)nullptr); break;
    case 6: go(*h2, (Ten2 *)nullptr, *h0, (Ten0 *)nullptr); break; default: go(*h2, (Ten2 *)nullptr, *h1, (Ten1 *)nullptr); break;
    }
}

// constructors from external storage and layout conversions, checked by index arithmetic on the current contents
template <class T, class S0, class S1, class S2> void MU<T, S0, S1, S2>::ctor_layout(Cx &cx) {
    const Step &st = *cx.st; uint32_t w = st.a[A_RHS] % 7; int hi = (int)(st.a[A_HANDLE] % 3);
    auto go = [&](auto &h, auto *tenp, auto sh) {
        using Ten = typename std::remove_pointer<decltype(tenp)>::type;
        Ten t, u2; const T *p = buf; Outcome o;
        std::array<T, (size_t)SZ> arr; for (int i = 0; i < SZ; ++i) arr[(size_t)i] = shadow[i];
        std::vector<T> vec(shadow.begin(), shadow.end());
        bool colmajor_input = false, roundtrip = false, placed = false;
        switch (w) {
        case 0: o = window([&] { Ten x(p, RowMajor); t = x; }, false); break;
        case 1: o = window([&] { Ten x(p, ColumnMajor); t = x; }, false); colmajor_input = true; break;
        case 2: o = window([&] { Ten x(arr, (st.a[A_X] & 1) ? ColumnMajor : RowMajor); t = x; }, false); colmajor_input = st.a[A_X] & 1; break;
        case 3: o = window([&] { Ten x(vec, (st.a[A_X] & 1) ? ColumnMajor : RowMajor); t = x; }, false); colmajor_input = st.a[A_X] & 1; break;
        case 4: o = window([&] { t = torowmajor(h); u2 = tocolumnmajor(t); }, false); placed = true; roundtrip = true; break;
        case 6: if (IL<Ten, T, decltype(sh)>::available) { const T *vv = shadow.data(); o = window([&] { t = IL<Ten, T, decltype(sh)>::make(vv); }, false); if (cx.cnt) cx.cnt->bump("probe/initializer-list constructor checked"); }
                else { o = window([&] { Ten x(p, RowMajor); t = x; }, false); } break;
        default: o = window([&] { t = tocolumnmajor(h); u2 = torowmajor(t); }, false); colmajor_input = true; roundtrip = true; break;
        }
        snprintf(cx.info->desc, sizeof cx.info->desc, "ctor/layout variant %u on shape of handle %d", w, hi);
        cx.info->sig = mix2(0xc7, (uint64_t)w * 4 + (uint64_t)hi);
        if (o.kind == 1) { char d[200]; o.describe(d, sizeof d); cx.v->set(cx.si, "fault/ctor_layout", cx.opname, "%s: %s raised %s", cx.opname, cx.info->desc, d); return; }
        if (o.kind != 0) { cx.info->kind = "aborted"; return; }
        for (int q = 0; q < SZ; ++q) {
            size_t cm = colmajor_offset((size_t)q, sh);
            T expect = placed ? T() : (colmajor_input ? shadow[cm] : shadow[q]);
            T got = placed ? t.data()[cm] : t.data()[q];
            if (placed) expect = shadow[q];        // element q (row-major numbering) must sit at the column-major offset
            if (memcmp(&got, &expect, sizeof(T)) != 0) { cx.v->set(cx.si, "layout/ctor_layout", cx.opname, "%s: %s: element %d is %.17g, expected %.17g", cx.opname, cx.info->desc, q, (double)got, (double)expect); return; }
        }
        if (roundtrip && memcmp(u2.data(), shadow.data(), sizeof(T) * SZ) != 0) { cx.v->set(cx.si, "layout/roundtrip", cx.opname, "%s: %s: the two conversions do not compose to the identity", cx.opname, cx.info->desc); return; }
        if (cx.cnt) cx.cnt->bump("probe/layout or constructor checked by index arithmetic");
    };
    switch (hi) { case 0: go(*h0, (Ten0 *)nullptr, S0{}); break; case 1: go(*h1, (Ten1 *)nullptr, S1{}); break; default: go(*h2, (Ten2 *)nullptr, S2{}); }
}

} // namespace mapsim
#endif
