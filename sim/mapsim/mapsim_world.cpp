// mapsim world: plan generation and execution for C20.
#include "mapsim.h"
#include "shards.inc"

namespace mapsim {

struct MapWorld : World {
    Registry reg; std::vector<UniverseBase *> inst;
    MapWorld() { sim_name = "mapsim"; for (RegFn f : SHARD_FNS) f(reg); inst.assign(reg.factories.size(), nullptr); }
    uint32_t n_ops() const override { return (uint32_t)reg.ops.size(); }
    const char *op_name(uint32_t op) const override { return reg.ops[op % reg.ops.size()].name.c_str(); }

    void gen_plan(const char *, int, uint64_t seed, uint64_t index, Plan &p) override {
        p = Plan(); Rng r(mix2(seed, index));
        uint32_t u = r.below((uint32_t)reg.uni_ops.size());
        const std::vector<uint32_t> &cand = reg.uni_ops[u];
        p.hdr[H_UNI] = u; p.hdr[H_STORAGE] = r.below(3) == 0 ? 1 : 0;
        p.hdr[H_SIDE] = r.below(4) == 0 ? MIDDLE : (r.below(2) ? BACK : FRONT);
        p.hdr[H_MISALIGN] = r.below(3) == 0 ? 0 : (r.below(64) | (r.below(4) == 0 ? 0x40 : 0));
        p.hdr[H_POISON] = r.below(NPOISON); p.hdr[H_DATA] = r.below(100000); p.hdr[H_FAILALLOC] = r.below(8) == 0;
        uint32_t nsteps = 1 + r.below(12);
        int fixed_operator = r.below(3) == 0 ? (int)r.below(5) : -1;
        std::vector<uint32_t> focus; uint32_t nf = 1 + r.below(3); for (uint32_t i = 0; i < nf; ++i) focus.push_back(cand[r.below((uint32_t)cand.size())]);
        for (uint32_t i = 0; i < nsteps; ++i) {
            Step s; s.op = r.below(2) ? focus[r.below((uint32_t)focus.size())] : cand[r.below((uint32_t)cand.size())];
            for (uint32_t &a : s.a) a = r.u32() >> 4;
            s.a[A_OP] = fixed_operator >= 0 ? (uint32_t)fixed_operator : r.below(5);
            s.a[A_HANDLE] = r.below(3);                    // alternate between the handles
            p.steps.push_back(s);
        }
    }
    RunResult exec_plan(const char *, const Plan &p, Counters *cnt, FILE *log) override {
        RunResult rr; Hash h; if (p.steps.empty()) { rr.hash = h.h; return rr; }
        uint32_t u = reg.ops[p.steps[0].op % reg.ops.size()].universe;
        if (!inst[u]) inst[u] = reg.factories[u]();
        UniverseBase &uni = *inst[u]; uni.setup(p); h.str(uni.name());
        uint64_t sigs[3] = {0, 0, 0};
        if (cnt) {
            const char *sd[3] = {"middle", "back-flush", "front-flush"};
            cnt->bump(std::string("fault/buffer-placement-") + sd[p.hdr[H_SIDE] % 3]);
            if (p.hdr[H_STORAGE] % 2 == 0) { char b[40]; snprintf(b, sizeof b, "fault/misalign-%02u", p.hdr[H_MISALIGN] % 64 / 4 * 4); cnt->bump(b); if (p.hdr[H_MISALIGN] & 0x40) cnt->bump("fault/byte-granular-misalignment (address not a multiple of sizeof(T))"); }
            cnt->bump(p.hdr[H_STORAGE] % 2 ? "fault/storage-owning-tensor-with-reshape-maps" : "fault/storage-raw-buffer-with-maps");
            { char b[32]; snprintf(b, sizeof b, "fault/poison-%u", p.hdr[H_POISON] % NPOISON); cnt->bump(b); }
            if (p.hdr[H_FAILALLOC] & 1) cnt->bump("fault/alloc-failure-armed-runs");
        }
        for (size_t si = 0; si < p.steps.size(); ++si) {
            const Step &st = p.steps[si]; const OpDesc &od = reg.ops[st.op % reg.ops.size()];
            if (od.universe != u) continue;
            StepInfo info; h.str(od.name.c_str()); for (uint32_t a : st.a) h.u64(a);
            uni.step((int)si, st, od.kind, od.name.c_str(), rr.v, cnt, info, h);
            ++rr.steps;
            if (log) fprintf(log, "step %zu %s :: %s%s\n", si, od.name.c_str(), info.desc, rr.v.bad ? "  <-- VIOLATION" : "");
            if (cnt) {
                cnt->bump("steps"); cnt->bump(std::string("kind/") + info.kind);
                uint64_t sg = mix2(st.op % reg.ops.size(), info.sig);
                cnt->sig_all.insert(sg); if (info.nontrivial) cnt->sig_nontrivial.insert(sg);
                sigs[0] = sigs[1]; sigs[1] = sigs[2]; sigs[2] = sg; cnt->seq3.insert(mix2(mix2(sigs[0], sigs[1]), sigs[2]));
            }
            if (rr.v.bad || !strcmp(info.kind, "aborted")) break;
        }
        rr.hash = h.h; return rr;
    }
};
} // namespace mapsim
namespace fsim { World *make_world() { return new mapsim::MapWorld(); } }
