// mapsim: the C20 world. One storage object per run (a raw buffer in the guarded arena at a
// plan-chosen misalignment, or an owning tensor), several LIVE handles of different same-size
// shapes over it (TensorMap / reshape / flatten / squeeze), operations interleaved through the
// handles and the source. Oracle: a twin -- an ordinary, comfortably aligned owning tensor of the
// operating handle's shape holding the same values, on which the identical operation is performed.
#ifndef MAPSIM_H
#define MAPSIM_H
#include "../core/fsim.h"
#include <Fastor/Fastor.h>
#include <array>
#include <cmath>

namespace mapsim {
using namespace fsim;
using namespace Fastor;

// step argument layout
enum { A_KIND = 0, A_HANDLE = 1, A_OP = 2, A_RHS = 3, A_VAL = 4, A_I0 = 5 /* 5..10 indices / ranges */, A_X = 11 };
// hdr layout
enum { H_UNI = 0, H_STORAGE = 1, H_SIDE = 2, H_MISALIGN = 3, H_POISON = 4, H_DATA = 5, H_FAILALLOC = 6 };

template <size_t... D> struct shape_ { static constexpr size_t rank = sizeof...(D); };
template <size_t... D> struct prod_;
template <> struct prod_<> { static constexpr size_t value = 1; };
template <size_t A, size_t... D> struct prod_<A, D...> { static constexpr size_t value = A * prod_<D...>::value; };

template <class T, class S> struct ten_of;
template <class T, size_t... D> struct ten_of<T, shape_<D...>> { using type = Tensor<T, D...>; using map = TensorMap<T, D...>; };

template <class T> inline T apply_op(int op, T a, T b) { switch (op) { case 0: return b; case 1: return (T)(a + b); case 2: return (T)(a - b); case 3: return (T)(a * b); default: return (T)(a / b); } }
template <class D, class Rh> inline void do_assign(int op, D &&d, const Rh &r) { switch (op) { case 0: d = r; break; case 1: d += r; break; case 2: d -= r; break; case 3: d *= r; break; default: d /= r; } }
static const char *const OPNAME[5] = {"=", "+=", "-=", "*=", "/="};
template <class T> inline T pow2val(uint64_t h) { int k = (int)(h % 4); T v = (T)(1 << k); return (h >> 8) & 1 ? (T)(-v) : v; }
template <class T> inline T smallval(uint64_t h) { int v = (int)(h % 6) + 1; return (h >> 8) & 1 ? (T)(-v) : (T)v; }

struct StepInfo { bool nontrivial = false; uint64_t sig = 0; const char *kind = ""; char desc[200] = {0}; };
struct UniverseBase {
    virtual ~UniverseBase() {}
    virtual const char *name() const = 0;
    virtual void setup(const Plan &p) = 0;
    virtual void step(int si, const Step &st, uint32_t kind, const char *opname, Verdict &v, Counters *cnt, StepInfo &info, Hash &h) = 0;
};
struct OpDesc { std::string name; const char *family; uint32_t universe; uint32_t kind; };
struct Registry {
    std::vector<OpDesc> ops; std::vector<UniverseBase *(*)()> factories; std::vector<std::string> uni_names; std::vector<std::vector<uint32_t>> uni_ops;
};
typedef void (*RegFn)(Registry &);

enum Kind : uint32_t { K_SCALAR = 0, K_TENSOR, K_EXPR, K_SELF_EXPR, K_METHOD, K_ELEM, K_FIXVIEW, K_DYNVIEW, K_REDUCE, K_READ_EXPR, K_MATMUL, K_REWRAP, K_SOURCE_WRITE, K_CTOR_LAYOUT, K_MAP_COPY, K_CROSS_HANDLE, K_BAD_ELEM, K_NKINDS };
static const char *const KINDNAME[K_NKINDS] = {"scalar", "tensor", "expr", "self_expr", "method", "elem", "fixview", "dynview", "reduce", "read_expr", "matmul", "rewrap", "source_write", "ctor_layout", "map_copy", "cross_handle", "bad_elem"};

} // namespace mapsim
#endif
