#!/usr/bin/env python3
"""Builds the seeded-change table of DESIGN.md section 12 from tools/matrix.sh logs.
usage: tools/seeded_table.py <log> [<log> ...]   (lines: '<label> <prop> exit=<n> violations=<k> class(count) ...')"""
import sys, re, os, json
ids = sorted(os.listdir('/verif/seeded'))
def sid_early(label):
    return sid(label)


def sid(label):
    if label.startswith('final-'): return label[len('final-'):]
    m = re.match(r'(?:w(\d)-)?(C\d+)-m(\d)', label)
    wave = int(m.group(1) or 1); p = m.group(2); i = int(m.group(3))
    n = i + {1: 0, 2: 3, 3: 5, 4: 7}[wave]
    for d in ids:
        if d.startswith(f'{p}-{n:02d}-'): return d
    return label
final_mode = '--final' in sys.argv
args = [a for a in sys.argv[1:] if a != '--final']
rows = {}
for path in args:
    for l in open(path, errors='replace'):
        m = re.match(r'(\S+) (C\d+) exit=(\d+) violations=(\d+)\s*(.*)', l.strip())
        if not m: continue
        lab = m.group(1)
        if final_mode != lab.startswith('final-') and not (not final_mode and lab.startswith('final-')): continue
        key = sid_early(lab)
        if not final_mode and lab.startswith('final-') and m.group(2) in rows.get(key, {}): continue      # keep the original matrix cell
        rows.setdefault(key, {})[m.group(2)] = (int(m.group(3)), int(m.group(4)), m.group(5).strip())

print('| seeded change | breaks | needs | C05 | C07 | C18 | C20 |')
print('|---|---|---|---|---|---|---|')
for label in sorted(rows):
    d = label
    meta = {}
    mp = f'/verif/seeded/{d}/meta.json'
    if os.path.exists(mp): meta = json.load(open(mp))
    cells = []
    for p in ('C05', 'C07', 'C18', 'C20'):
        r = rows[label].get(p)
        if not r: cells.append('–'); continue
        ex, nv, cls = r
        first = cls.split(' ')[0] if cls else ''
        cells.append(f'**caught** {first}' if ex == 1 else ('quiet' if ex == 0 else f'exit {ex}'))
    print(f"| `{d}` | {meta.get('breaks_property','?')} | {meta.get('needs_to_manifest','')[:140]} | " + ' | '.join(cells) + ' |')
