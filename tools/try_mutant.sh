#!/bin/bash
# usage: tools/try_mutant.sh <patch.diff> <out-prefix> <prop> [prop...]
# applies a seeded change to /repo, runs the quick checks, reverts the change; never commits.
patch=$1; out=$2; shift 2
cd /repo && git diff --quiet || { echo "/repo is dirty"; exit 9; }
git -C /repo apply "$patch" || { echo "patch does not apply"; exit 9; }
for p in "$@"; do
  ( cd /verif && ./check $p quick > "$out.$p.log" 2>&1; echo "exit=$?" >> "$out.$p.log" )
  echo "$p: $(tail -1 $out.$p.log) violations=$(grep -c '^VIOLATION' $out.$p.log) known=$(grep -c '^KNOWN-FINDING' $out.$p.log) unrepro=$(grep -c 'UNREPRODUCIBLE' $out.$p.log)"
  grep "   config=" "$out.$p.log" | sed 's/ ::.*//' | awk '{print "     ",$1,$2}' | sort | uniq -c | sort -rn | head -6
done
git -C /repo checkout -- .
