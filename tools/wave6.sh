#!/bin/bash
# usage: tools/wave6.sh <wt> <mutroot> <PROP>  -> per mutant: demo on clean / changed tree, then the property's quick check against wt+patch
wt=$1; root=$2; prop=$3
for md in $root/m[0-9]; do
  [ -f $md/patch.diff ] || continue
  git -C $wt checkout -q -- . ; git -C $wt diff --quiet || { echo "$md: worktree dirty"; continue; }
  cmd=$(head -1 $md/demo.cpp | sed 's#^// *##; s# -o [^ ]*##' | sed "s#\(^\| \)[^ ]*demo.cpp#\1$md/demo.cpp#")
  case "$cmd" in g++*|clang++*) ;; *) cmd="g++ -std=c++14 -O2 -DNDEBUG -I$wt $md/demo.cpp";; esac
  $cmd -o $md/demo_clean.bin >/dev/null 2>&1; ( cd $md && timeout 60 ./demo_clean.bin >/dev/null 2>&1 ); c=$?
  git -C $wt apply $md/patch.diff || { echo "$md: patch does not apply"; continue; }
  $cmd -o $md/demo_mut.bin >/dev/null 2>&1; ( cd $md && timeout 60 ./demo_mut.bin >/dev/null 2>&1 ); m=$?
  git -C $wt checkout -q -- .
  echo "CONFIRM $md demo_cmd=[$cmd] demo_clean_exit=$c demo_mutant_exit=$m"
  MATRIX_PROPS=$prop FSIM_JOBS=${FSIM_JOBS:-6} $(dirname "$(readlink -f "$0")")/matrix.sh $wt $md/patch.diff w6-$prop-$(basename $md)
done
