#!/bin/bash
# usage: tools/suite_combined.sh <wt> <mutroot> : applies ALL patches of mutroot/m* together, builds the pinned suite, runs ctest, reverts
wt=$1; root=$2
git -C $wt checkout -q -- .
for md in $root/m[0-9]; do [ -f $md/patch.diff ] && [ ! -f $md/SKIP ] && { git -C $wt apply $md/patch.diff || echo "apply failed $md"; }; done
git -C $wt diff --stat | tail -1
cmake --build $wt/_build -j${J:-6} > $root/combined_build.log 2>&1; b=$?
t=$(ctest --test-dir $wt/_build -j${J:-6} --timeout 900 2>&1 | grep -E "tests passed")
git -C $wt checkout -q -- .
echo "SUITE $root build_exit=$b tests=[$t]"
