#!/bin/bash
# usage: tools/matrix.sh <worktree> <patch.diff> <label>   -> runs all four quick checks against worktree+patch, prints one line per property
wt=$1; patch=$2; label=$3
git -C $wt checkout -q -- . && git -C $wt apply $patch || { echo "$label: patch failed"; exit 9; }
out=/tmp/matrix/$label; mkdir -p $out
for p in ${MATRIX_PROPS:-C05 C07 C18 C20}; do
  ( cd "$(dirname "$(readlink -f "$0")")/.." && FSIM_REPO=$wt FSIM_OUT=$out FSIM_JOBS=${FSIM_JOBS:-8} ./check $p quick > $out/$p.log 2>&1; echo "exit=$?" >> $out/$p.log )
  cls=$(grep "   config=" $out/$p.log | sed 's/.*class=\([^ ]*\).*/\1/' | sort | uniq -c | sort -rn | head -3 | awk '{printf "%s(%s) ", $2, $1}')
  echo "$label $p $(tail -1 $out/$p.log) violations=$(grep -c '^VIOLATION' $out/$p.log) $cls"
done
git -C $wt checkout -q -- .
