#!/bin/bash
# usage: tools/confirm_mutant.sh <worktree> <mutdir> ; confirms demo pass/fail and the pinned suite with the change applied
wt=$1; md=$2
cd $wt && git checkout -q -- . && git diff --quiet || { echo "worktree dirty"; exit 9; }
cmd=$(grep -m1 -o "g++ [^\n]*demo.cpp[^&|;]*" $md/demo.cpp | sed "s#-I/tmp/wt-C[0-9]*#-I$wt#; s# -o [^ ]*##; s#[^ ]*demo.cpp#$md/demo.cpp#")
[ -z "$cmd" ] && cmd="g++ -std=c++14 -O2 -DNDEBUG -I$wt $md/demo.cpp"
$cmd -o /tmp/demo_clean >/dev/null 2>&1; /tmp/demo_clean >/dev/null 2>&1; c=$?
git apply $md/patch.diff || exit 9
$cmd -o /tmp/demo_mut >/dev/null 2>&1; /tmp/demo_mut >/dev/null 2>&1; m=$?
cmake --build $wt/_build -j14 >/tmp/confirm_build.log 2>&1; b=$?
t=$(ctest --test-dir $wt/_build -j14 --timeout 900 2>&1 | grep -E "tests passed" )
git checkout -q -- .
echo "$md demo_cmd=[$cmd] demo_clean_exit=$c demo_mutant_exit=$m build_exit=$b tests=[$t]"
